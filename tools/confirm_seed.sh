#!/bin/bash
# tools/confirm_seed.sh <prop> <letter x|y> <new-id e.g. C17-C> <demo dest relative to repo> <pkg> [features]
# Confirms an agent-authored change in a scratch worktree and imports it as /verif/seeded/<new-id>/.
set -u
prop=$1; l=$2; id=$3; dest=$4; pkg=$5; feat=${6:-}
src=/tmp/agents/$prop/out
w=/tmp/confirm/$id
rm -rf $w; mkdir -p /tmp/confirm
git -C /repo worktree prune
git -C /repo worktree add --detach $w HEAD >/dev/null 2>&1 || exit 2
log=/tmp/confirm/$id.log; : > $log
name=$(basename $dest .rs)
( cd $w && git apply $src/$l.patch.diff ) || { echo "patch does not apply" | tee -a $log; git -C /repo worktree remove --force $w; exit 2; }
echo "== suite with patch" >> $log
( cd $w && CARGO_TARGET_DIR=/tmp/confirm/target-$prop cargo nextest run --workspace --no-fail-fast --offline 2>&1 | grep -E "Summary|FAIL" | head -5 ) >> $log
mkdir -p $w/$(dirname $dest); cp $src/$l.demo.rs $w/$dest
echo "== demo with patch" >> $log
( cd $w && CARGO_TARGET_DIR=/tmp/confirm/target-$prop cargo nextest run $( [ "$pkg" = ws ] && echo "--workspace -E binary($name)" || echo "-p $pkg --test $name" ) $feat --no-fail-fast --offline 2>&1 | grep -E "Summary|error" | head -5 ) >> $log
( cd $w && git apply -R $src/$l.patch.diff )
echo "== demo without patch" >> $log
( cd $w && CARGO_TARGET_DIR=/tmp/confirm/target-$prop cargo nextest run $( [ "$pkg" = ws ] && echo "--workspace -E binary($name)" || echo "-p $pkg --test $name" ) $feat --no-fail-fast --offline 2>&1 | grep -E "Summary|error" | head -5 ) >> $log
cat $log
git -C /repo worktree remove --force $w
d=/verif/seeded/$id; mkdir -p $d/demo
cp $src/$l.patch.diff $d/patch.diff; cp $src/$l.demo.rs $d/demo/$name.rs; cp $src/$l.meta.md $d/notes.md
python3 - "$id" "$prop" "$dest" "$pkg" "$feat" "$log" <<'P'
import json,sys
id,prop,dest,pkg,feat,log=sys.argv[1:7]
notes=open('/verif/seeded/%s/notes.md'%id).read()
title=notes.splitlines()[0].lstrip('# ').strip()
meta={"seed":id,"breaks_property":prop,
 "author":"independent sub-agent given only the property text and a scratch worktree of /repo HEAD db565dc",
 "change":title,"needs_to_manifest":"see notes.md (the agent's own description)",
 "demo":{"copy_to":dest,"run":"cargo nextest run -p %s --test %s %s --offline"%(pkg,dest.split('/')[-1][:-3],feat)},
 "confirmed_by_me":{"procedure":"scratch worktree of /repo HEAD: git apply patch.diff; cargo nextest run --workspace --offline; copy demo; run demo (must fail); git apply -R; run demo (must pass)",
   "output":open(log).read().splitlines()},
 "detected_by":"see DESIGN.md section 11"}
json.dump(meta,open('/verif/seeded/%s/meta.json'%id,'w'),indent=1)
P
