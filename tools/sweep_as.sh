#!/bin/bash
# Development aid: run a property's check against a seeded breaking change in a scratch copy.
#   tools/sweep.sh <seed-id> [tier] [jobs] [extra ./check args...]
# Creates /tmp/sw/<seed>/{repo (git worktree of /repo + patch), harness (copy with path deps
# rewritten), kt, work}, runs ./check there, prints the verdict lines and removes the scratch.
set -u
seed=$1; tier=${2:-quick}; jobs=${3:-6}; shift; shift || true; shift || true
prop=${PROP:-$(python3 -c "import json;print(json.load(open('/verif/seeded/$seed/meta.json'))['breaks_property'])")}
d=/tmp/sw/$seed-${PROP:-x}
rm -rf $d; mkdir -p $d
git -C /repo worktree prune
git -C /repo worktree add --detach $d/repo HEAD >/dev/null 2>&1 || { echo "worktree failed"; exit 2; }
git -C $d/repo apply /verif/seeded/$seed/patch.diff || { echo "patch does not apply"; git -C /repo worktree remove --force $d/repo; exit 2; }
cp -a /verif/harness $d/harness; rm -rf $d/harness/target
sed -i "s#/repo/#$d/repo/#g; s#\.\./vendor/#/verif/vendor/#g" $d/harness/Cargo.toml
# start from the pre-built dependency graph of ./check --setup (zlink-core itself is rebuilt: different path)
mkdir -p $d/kt
for b in small prod mid; do [ -d /verif/.kt/$b-w0 ] && cp -a /verif/.kt/$b-w0 $d/kt/$b-w0; done
out=/verif/work/sweep; mkdir -p $out
VERIF_REPO=$d/repo VERIF_HARNESS_DIR=$d/harness VERIF_KT=$d/kt VERIF_WORK=$d/work \
  /verif/check $prop --tier $tier --jobs $jobs "$@" > $out/$seed-${PROP:+$PROP-}$tier.log 2>&1
rc=$?
echo "SEED $seed prop=$prop tier=$tier rc=$rc"
grep -E "^  harness=" $out/$seed-${PROP:+$PROP-}$tier.log | sed -E 's/.*assertion=([^[]*).*/\1/' | sort | uniq -c | sed 's/^/   violated: /'
grep -E "^(UNCONFIRMED|BUILD-FAILED|INCONCLUSIVE)|verified=" $out/$seed-${PROP:+$PROP-}$tier.log | cut -c1-200
mkdir -p $out/replay-$seed; cp $d/work/replay/*.json $out/replay-$seed/ 2>/dev/null
git -C /repo worktree remove --force $d/repo; rm -rf $d
exit $rc
