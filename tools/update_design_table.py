#!/usr/bin/env python3
"""Replace the table of DESIGN.md section 11 by the current output of tools/sweep_table.py."""
import subprocess
p = '/verif/DESIGN.md'
s = open(p).read()
hdr = '| seed | change | quick check of its property |\n|------|--------|------------------------------|\n'
a = s.index(hdr)
b = s.index('\n\nWhat the misses have in common', a)
tab = subprocess.run(['/verif/tools/sweep_table.py'], capture_output=True, text=True).stdout.rstrip('\n')
open(p, 'w').write(s[:a] + hdr + tab + s[b:])
print('table updated: %d rows' % tab.count('\n'))
