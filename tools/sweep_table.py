#!/usr/bin/env python3
"""Summarise work/sweep/<seed>-<tier>.log into the markdown table of DESIGN.md section 11."""
import glob, json, os, re, sys
rows = []
for meta in sorted(glob.glob('/verif/seeded/*/meta.json')):
    m = json.load(open(meta)); sid = m['seed']
    best = None
    for tier in ('quick', 'thorough'):
        log = '/verif/work/sweep/%s-%s.log' % (sid, tier)
        if not os.path.exists(log):
            continue
        txt = open(log, errors='replace').read()
        viol = re.findall(r'^  harness=(\S+) assertion=(.*?) \[', txt, re.M)
        unconf = re.findall(r'^UNCONFIRMED harness=(\S+) check=(.*?) \[', txt, re.M)
        build = 'BUILD-FAILED' in txt
        summ = re.findall(r'^\[\S+ \S+\] (verified=.*)$', txt, re.M)
        roles = sorted({h.split('::')[1].rsplit('_l', 1)[0] if False else re.sub(r'(_[lrmnpsfoc]\d+)+$|_(some|none|enq|send)$', '', h.split('::')[1]) for h, _ in viol})
        asserts = sorted({a.strip() for _, a in viol})
        best = (tier, viol, unconf, build, summ[-1] if summ else '?', roles, asserts)
        if viol:
            break
    rows.append((sid, m['breaks_property'], m['change'], best))
for sid, prop, change, best in rows:
    if best is None:
        verdict = 'not run'
    else:
        tier, viol, unconf, build, summ, roles, asserts = best
        if viol:
            verdict = '**caught** (%s): %s - %s' % (tier, ', '.join('`%s`' % r for r in roles[:4]), '; '.join(asserts[:3]))
        elif build:
            verdict = 'harness crate no longer builds against the change (exit 2)'
        elif unconf:
            verdict = 'solver counterexample not reproduced natively (exit 2): %s' % unconf[0][1]
        else:
            verdict = 'missed (%s: %s)' % (tier, summ.split(' wall')[0])
    print('| %s | %s | %s |' % (sid, change.replace('|', '/')[:150], verdict))
    if '--update-meta' in sys.argv and best is not None:
        mp = '/verif/seeded/%s/meta.json' % sid
        m = json.load(open(mp))
        m['detected_by'] = verdict.replace('**', '') + ' (./check run against the change in a scratch copy by tools/sweep.sh; see DESIGN.md section 11)'
        json.dump(m, open(mp, 'w'), indent=1)
