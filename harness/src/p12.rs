//! C12 — proxy-generated methods put exactly the declared call on the wire (frame-equality
//! part). A fixed corpus trait is expanded by the **real** `#[proxy]` macro; for each method the
//! frame written by the plain method is compared byte for byte with the frame computed from the
//! declaration, and the frames written by the `chain_*` and chain-extension forms with the plain
//! method's frame, for symbolic argument values.

use crate::{
    cover,
    exec::poll_once,
    refjson::Doc,
    sock::{ScriptRead, Step, STEPS},
    Nd,
};
use core::{
    future::Future,
    pin::Pin,
    task::{Context, Poll},
};
use futures_util::stream::Stream;
use serde::{Deserialize, Serialize};
use zlink_core::{
    connection::socket::{Socket, WriteHalf},
    proxy, Connection, ReplyError,
};

#[derive(Debug, Serialize, Deserialize, PartialEq, Clone, Copy)]
pub struct Out {
    pub n: u32,
}

#[derive(Debug, PartialEq, ReplyError)]
#[zlink(interface = "org.ex", crate = "zlink_core")]
pub enum PErr {
    Gone,
}

#[proxy(interface = "org.ex.P", crate = "zlink_core")]
pub trait P {
    async fn ping(&mut self) -> zlink_core::Result<Result<(), PErr>>;
    async fn add(&mut self, a: u8, b: bool) -> zlink_core::Result<Result<Out, PErr>>;
    async fn say(&mut self, text: &str) -> zlink_core::Result<Result<Out, PErr>>;
    async fn opt(&mut self, x: Option<u8>, y: bool) -> zlink_core::Result<Result<Out, PErr>>;
    #[zlink(rename = "CustomName")]
    async fn renamed_method(&mut self) -> zlink_core::Result<Result<Out, PErr>>;
    async fn ren_param(&mut self, #[zlink(rename = "wireName")] v: u8) -> zlink_core::Result<Result<Out, PErr>>;
    #[zlink(more)]
    async fn watch(&mut self, n: u8) -> zlink_core::Result<impl Stream<Item = zlink_core::Result<Result<Out, PErr>>>>;
    #[zlink(oneway)]
    async fn notify(&mut self, n: u8) -> zlink_core::Result<()>;
    async fn get_2fa_code(&mut self) -> zlink_core::Result<Result<Out, PErr>>;
    async fn ren_opt(&mut self, #[zlink(rename = "wireOpt")] o: Option<u8>, y: bool) -> zlink_core::Result<Result<Out, PErr>>;
}

pub const WCAP: usize = 160;

/// Write half recording the first write.
#[derive(Debug)]
pub struct Cap {
    pub writes: usize,
    pub len: usize,
    pub data: [u8; WCAP],
}

pub struct CapFut<'a, 'b> {
    s: &'a mut Cap,
    buf: &'b [u8],
}
impl Future for CapFut<'_, '_> {
    type Output = zlink_core::Result<()>;
    fn poll(self: Pin<&mut Self>, _cx: &mut Context<'_>) -> Poll<Self::Output> {
        let this = self.get_mut();
        if this.s.writes == 0 {
            this.s.len = this.buf.len();
            let mut i = 0;
            while i < WCAP {
                if i < this.buf.len() {
                    this.s.data[i] = this.buf[i];
                }
                i += 1;
            }
        }
        this.s.writes += 1;
        Poll::Ready(Ok(()))
    }
}
impl WriteHalf for Cap {
    fn write<'s, 'b>(&'s mut self, buf: &'b [u8]) -> impl Future<Output = zlink_core::Result<()>> + use<'s, 'b> {
        CapFut { s: self, buf }
    }
}

#[derive(Debug)]
pub struct PSock {
    r: ScriptRead,
    w: Cap,
}
impl Socket for PSock {
    type ReadHalf = ScriptRead;
    type WriteHalf = Cap;
    fn split(self) -> (ScriptRead, Cap) {
        (self.r, self.w)
    }
}

pub fn conn() -> Connection<PSock> {
    // The peer never answers: every receive stays pending.
    static NEVER: [Step; STEPS] = [Step::Pending; STEPS];
    Connection::new(PSock {
        r: ScriptRead::new(&NEVER, STEPS),
        w: Cap { writes: 0, len: 0, data: [0; WCAP] },
    })
}

#[derive(Clone, Copy)]
pub struct Args {
    pub a: u8,
    pub b: bool,
    pub x: Option<u8>,
    pub s: [u8; 1],
}

/// Symbolic argument values whose encodings have a *fixed width* (three-digit numbers, a
/// character that needs no escape), so that every byte of the frame has a concrete offset (R1);
/// whether the optional argument is present is decided by the instance (`XS`).
fn any_args<const XS: bool>(nd: &mut Nd) -> Args {
    let a = nd.byte_in(100, 255);
    let xv = nd.byte_in(100, 255);
    let c = nd.alnum();
    Args {
        a,
        b: nd.bool(),
        x: if XS { Some(xv) } else { None },
        s: [c],
    }
}

fn dec(d: &mut Doc<WCAP>, v: u8) {
    if v >= 100 {
        d.push(b'0' + v / 100);
    }
    if v >= 10 {
        d.push(b'0' + (v / 10) % 10);
    }
    d.push(b'0' + v % 10);
}

/// The frame (document + NUL) the declaration of method M denotes for these arguments.
pub fn expected<const M: usize>(g: &Args) -> Doc<WCAP> {
    let mut d = Doc::new();
    match M {
        0 => d.lit(b"{\"method\":\"org.ex.P.Ping\"}"),
        1 => {
            d.lit(b"{\"method\":\"org.ex.P.Add\",\"parameters\":{\"a\":");
            dec(&mut d, g.a);
            d.lit(b",\"b\":");
            d.lit(if g.b { b"true" } else { b"false" });
            d.lit(b"}}");
        }
        2 => {
            d.lit(b"{\"method\":\"org.ex.P.Say\",\"parameters\":{\"text\":");
            d.json_str(&g.s, 1);
            d.lit(b"}}");
        }
        3 => {
            d.lit(b"{\"method\":\"org.ex.P.Opt\",\"parameters\":{");
            if let Some(x) = g.x {
                d.lit(b"\"x\":");
                dec(&mut d, x);
                d.push(b',');
            }
            d.lit(b"\"y\":");
            d.lit(if g.b { b"true" } else { b"false" });
            d.lit(b"}}");
        }
        4 => d.lit(b"{\"method\":\"org.ex.P.CustomName\"}"),
        5 => {
            d.lit(b"{\"method\":\"org.ex.P.RenParam\",\"parameters\":{\"wireName\":");
            dec(&mut d, g.a);
            d.lit(b"}}");
        }
        6 => {
            d.lit(b"{\"method\":\"org.ex.P.Watch\",\"parameters\":{\"n\":");
            dec(&mut d, g.a);
            d.lit(b"},\"more\":true}");
        }
        7 => {
            d.lit(b"{\"method\":\"org.ex.P.Notify\",\"parameters\":{\"n\":");
            dec(&mut d, g.a);
            d.lit(b"},\"oneway\":true}");
        }
        8 => d.lit(b"{\"method\":\"org.ex.P.Get2faCode\"}"),
        _ => {
            d.lit(b"{\"method\":\"org.ex.P.RenOpt\",\"parameters\":{");
            if let Some(x) = g.x {
                d.lit(b"\"wireOpt\":");
                dec(&mut d, x);
                d.push(b',');
            }
            d.lit(b"\"y\":");
            d.lit(if g.b { b"true" } else { b"false" });
            d.lit(b"}}");
        }
    }
    d.push(0);
    d
}

fn captured(c: &Connection<PSock>) -> (usize, usize, [u8; WCAP]) {
    let w = c.write().write_half();
    (w.writes, w.len, w.data)
}

/// Drive the plain method M once (the write happens in the first poll; the reply never comes).
fn run_plain<const M: usize>(c: &mut Connection<PSock>, g: &Args) {
    let s = crate::nd::str_of(&g.s);
    match M {
        0 => {
            let f = c.ping();
            let mut f = core::pin::pin!(f);
            core::mem::forget(poll_once(f.as_mut()));
        }
        1 => {
            let f = c.add(g.a, g.b);
            let mut f = core::pin::pin!(f);
            core::mem::forget(poll_once(f.as_mut()));
        }
        2 => {
            let f = c.say(s);
            let mut f = core::pin::pin!(f);
            core::mem::forget(poll_once(f.as_mut()));
        }
        3 => {
            let f = c.opt(g.x, g.b);
            let mut f = core::pin::pin!(f);
            core::mem::forget(poll_once(f.as_mut()));
        }
        4 => {
            let f = c.renamed_method();
            let mut f = core::pin::pin!(f);
            core::mem::forget(poll_once(f.as_mut()));
        }
        5 => {
            let f = c.ren_param(g.a);
            let mut f = core::pin::pin!(f);
            core::mem::forget(poll_once(f.as_mut()));
        }
        6 => {
            let f = c.watch(g.a);
            let mut f = core::pin::pin!(f);
            match poll_once(f.as_mut()) {
                Poll::Ready(Ok(s)) => core::mem::forget(s),
                Poll::Ready(Err(e)) => core::mem::forget(e),
                Poll::Pending => {}
            }
        }
        7 => {
            let f = c.notify(g.a);
            let mut f = core::pin::pin!(f);
            core::mem::forget(poll_once(f.as_mut()));
        }
        8 => {
            let f = c.get_2fa_code();
            let mut f = core::pin::pin!(f);
            core::mem::forget(poll_once(f.as_mut()));
        }
        _ => {
            let f = c.ren_opt(g.x, g.b);
            let mut f = core::pin::pin!(f);
            core::mem::forget(poll_once(f.as_mut()));
        }
    }
}

/// The plain generated method writes exactly the frame its declaration denotes, in one write.
pub fn proxy_plain<const M: usize, const XS: bool>(nd: &mut Nd) {
    let g = any_args::<XS>(nd);
    let mut c = conn();
    run_plain::<M>(&mut c, &g);
    let (writes, len, data) = captured(&c);
    let e = expected::<M>(&g);
    assert!(writes == 1, "C12.one_call_one_write");
    assert!(len == e.n, "C12.plain_method_sends_the_declared_call");
    let mut i = 0;
    while i < WCAP {
        if i < e.n {
            assert!(data[i] == e.b[i], "C12.plain_method_sends_the_declared_call");
        }
        i += 1;
    }
    cover!(nd, g.b, "boolean argument true");
    core::mem::forget(c);
}

/// The chain forms are synchronous up to `send()`: the calls are in the connection's write buffer
/// as soon as the chain value exists. `send()` itself (one flush) is C02/C06's subject, and polling
/// it would put a nested coroutine into the formula (DESIGN 12), so the chain is dropped unsent and
/// the enqueued bytes are read from the buffer.
macro_rules! send_chain {
    ($chain:expr) => {{
        match $chain {
            Ok(ch) => core::mem::forget(ch),
            Err(e) => core::mem::forget(e),
        }
    }};
}

fn enqueued(c: &Connection<PSock>) -> (usize, [u8; WCAP]) {
    let (buf, pos) = c.write().verif_parts();
    let mut data = [0u8; WCAP];
    let mut i = 0;
    while i < WCAP {
        if i < pos && i < buf.len() {
            data[i] = buf[i];
        }
        i += 1;
    }
    (pos, data)
}

/// `chain_<m>(args).send()` writes the same frame as the plain method (M ≠ oneway method, for
/// which no chain form is generated).
pub fn proxy_chain<const M: usize, const XS: bool>(nd: &mut Nd) {
    let g = any_args::<XS>(nd);
    let s = crate::nd::str_of(&g.s);
    let mut c = conn();
    match M {
        0 => send_chain!(c.chain_ping::<Out, PErr>()),
        1 => send_chain!(c.chain_add::<Out, PErr>(g.a, g.b)),
        2 => send_chain!(c.chain_say::<Out, PErr>(s)),
        3 => send_chain!(c.chain_opt::<Out, PErr>(g.x, g.b)),
        4 => send_chain!(c.chain_renamed_method::<Out, PErr>()),
        5 => send_chain!(c.chain_ren_param::<Out, PErr>(g.a)),
        6 => send_chain!(c.chain_watch::<Out, PErr>(g.a)),
        8 => send_chain!(c.chain_get_2fa_code::<Out, PErr>()),
        _ => send_chain!(c.chain_ren_opt::<Out, PErr>(g.x, g.b)),
    }
    let (len, data) = enqueued(&c);
    let e = expected::<M>(&g);
    let same = len == e.n && {
        let mut ok = true;
        let mut i = 0;
        while i < WCAP {
            if i < e.n && data[i] != e.b[i] {
                ok = false;
            }
            i += 1;
        }
        ok
    };
    match (M, XS) {
        (3, false) => assert!(same, "C12.chain_form_same_frame_as_plain[opt: None omitted]"),
        (5, _) | (9, _) => assert!(same, "C12.chain_form_same_frame_as_plain[renamed parameter]"),
        (6, _) => assert!(same, "C12.chain_form_same_frame_as_plain[more flag]"),
        _ => assert!(same, "C12.chain_form_same_frame_as_plain"),
    }
    cover!(nd, len > 0, "the chain form enqueued a frame that was compared");
    core::mem::forget(c);
}

/// `chain_ping().<m>(args).send()`: the second document of the single write is the plain
/// method's frame.
pub fn proxy_ext<const M: usize, const XS: bool>(nd: &mut Nd) {
    let g = any_args::<XS>(nd);
    let s = crate::nd::str_of(&g.s);
    let mut c = conn();
    {
        let first = match c.chain_ping::<Out, PErr>() {
            Ok(ch) => ch,
            Err(e) => {
                core::mem::forget(e);
                panic!("C12.chain_start_accepted");
            }
        };
        match M {
            0 => send_chain!(first.ping()),
            1 => send_chain!(first.add(g.a, g.b)),
            2 => send_chain!(first.say(s)),
            3 => send_chain!(first.opt(g.x, g.b)),
            4 => send_chain!(first.renamed_method()),
            5 => send_chain!(first.ren_param(g.a)),
            // (no chain-extension form is generated for `more` and `oneway` methods)
            8 => send_chain!(first.get_2fa_code()),
            _ => send_chain!(first.ren_opt(g.x, g.b)),
        }
    }
    let (len, data) = enqueued(&c);
    let p = expected::<0>(&g);
    let e = expected::<M>(&g);
    let same = len == p.n + e.n && {
        let mut ok = true;
        let mut i = 0;
        while i < WCAP {
            if i < p.n {
                if data[i] != p.b[i] {
                    ok = false;
                }
            } else if i < p.n + e.n && data[i] != e.b[i - p.n] {
                ok = false;
            }
            i += 1;
        }
        ok
    };
    match (M, XS) {
        (3, false) => assert!(same, "C12.chain_extension_same_frame_as_plain[opt: None omitted]"),
        (5, _) | (9, _) => assert!(same, "C12.chain_extension_same_frame_as_plain[renamed parameter]"),
        _ => assert!(same, "C12.chain_extension_same_frame_as_plain"),
    }
    cover!(nd, len > p.n, "the extension form enqueued a second frame that was compared");
    core::mem::forget(c);
}
