//! C05 — call, reply and error envelopes follow the Varlink schema and round-trip.
//!
//! The code under test is zlink's serde impls: `Call<M>`'s hand-written `Serialize` /
//! `Deserialize`, `Reply<T>`'s derive, the output of the real `ReplyError` derive and the
//! library's `varlink_service::{Method, Error}`. They are driven at the serde data-model level
//! through the token endpoints of `tok.rs`; the member order of an envelope is the instance
//! parameter (`ORD`), presence of optional members and all values are symbolic.

use crate::{
    cover,
    tok::{from_tokens, to_tokens, Leaf, MapTok, Obj, Txt, Val},
    Nd,
};
use serde::{Deserialize, Serialize};
use zlink_core::{varlink_service, Call, Reply, ReplyError};

// ------------------------------------------------------------------------------------- corpus

#[derive(Debug, Serialize, Deserialize, PartialEq, Clone, Copy)]
#[serde(tag = "method", content = "parameters")]
pub enum Meth<'a> {
    #[serde(rename = "org.example.Ping")]
    Ping,
    #[serde(rename = "org.example.Setv")]
    Set { v: u32 },
    #[serde(rename = "org.example.Name")]
    Name {
        #[serde(borrow)]
        s: &'a str,
    },
}

/// A method type that refuses unknown members: makes "every other member is passed through to
/// the method type, the flags are not" observable.
#[derive(Debug, Serialize, Deserialize, PartialEq, Clone, Copy)]
#[serde(deny_unknown_fields)]
pub struct Strict<'a> {
    #[serde(borrow)]
    pub method: &'a str,
    pub parameters: StrictParams,
}
#[derive(Debug, Serialize, Deserialize, PartialEq, Clone, Copy)]
#[serde(deny_unknown_fields)]
pub struct StrictParams {
    pub v: u32,
}

#[derive(Debug, PartialEq, ReplyError)]
#[zlink(interface = "org.ex", crate = "zlink_core")]
pub enum ErrA<'a> {
    Unit,
    Other,
    Code {
        code: u32,
    },
    Rena {
        #[zlink(rename = "wireName")]
        rust_name: u32,
    },
    Msgs {
        msg: &'a str,
        opt: Option<u32>,
    },
    /// Every field optional: still "has fields", so `parameters` is always written.
    Opts {
        o: Option<u32>,
    },
}

#[derive(Debug, PartialEq, ReplyError)]
#[zlink(interface = "org.ex", crate = "zlink_core")]
pub enum ErrOwned {
    Gone,
    Count { n: u32 },
}

// ------------------------------------------------------------------------------- permutations

/// The `ord`-th permutation of `0..n` (factorial number system), n ≤ 6.
pub const fn perm(ord: usize, n: usize) -> [usize; 6] {
    let mut avail = [0usize, 1, 2, 3, 4, 5];
    let mut out = [0usize; 6];
    let mut fact = 1;
    let mut i = 1;
    while i < n {
        fact *= i;
        i += 1;
    }
    // fact = (n-1)!
    let mut rem = ord;
    let mut k = 0;
    while k < n {
        let idx = rem / fact;
        rem %= fact;
        out[k] = avail[idx];
        let mut j = idx;
        while j + 1 < 6 {
            avail[j] = avail[j + 1];
            j += 1;
        }
        if n - k > 1 {
            fact /= n - k - 1;
        }
        k += 1;
    }
    out
}

/// Members present in this instance: index 0 is mandatory, bit i-1 of MASK says whether optional
/// member i is present; ORD picks the order of the present ones. Returns (count, order) where
/// order[k] is the member index at position k.
pub const fn layout(mask: usize, ord: usize, total: usize) -> (usize, [usize; 6]) {
    let mut present = [0usize; 6];
    let mut k = 1; // member 0 always present
    let mut i = 1;
    while i < total {
        if (mask >> (i - 1)) & 1 == 1 {
            present[k] = i;
            k += 1;
        }
        i += 1;
    }
    let p = perm(ord, k);
    let mut out = [0usize; 6];
    let mut j = 0;
    while j < k {
        out[j] = present[p[j]];
        j += 1;
    }
    (k, out)
}

fn flag_val(nd: &mut Nd, present: bool) -> (Val, bool) {
    if !present {
        return (Val::Absent, false);
    }
    let b = nd.bool();
    (Val::Leaf(Leaf::Bool(b)), b)
}

fn extra_val(nd: &mut Nd, present: bool) -> Val {
    if !present {
        return Val::Absent;
    }
    match nd.below(3) {
        0 => Val::Leaf(Leaf::Num(nd.u32() as u64)),
        1 => Val::Leaf(Leaf::Null),
        _ => Val::Obj(Obj::one("k", Leaf::Bool(true))),
    }
}

fn build(members: &[(&str, Val)], k: usize, order: &[usize; 6]) -> MapTok {
    let mut m = MapTok::empty();
    let mut j = 0;
    while j < k {
        let (key, val) = members[order[j]];
        m.push(key, val);
        j += 1;
    }
    m
}

/// Native validation of the token-level dispatch model against the real serde_json: the token
/// tree is rendered to JSON text, decoded with `serde_json::from_str`, and the accept / reject
/// verdicts must agree. (Compiled out under Kani.)
macro_rules! xcheck {
    ($t:ty, $m:expr, $ok:expr) => {{
        #[cfg(not(kani))]
        {
            let text = crate::tok::to_json($m);
            let real = serde_json::from_str::<$t>(&text);
            assert!(
                real.is_ok() == $ok,
                "MODEL.token_deserializer_disagrees_with_serde_json on {}: serde_json says {:?}",
                text,
                real.as_ref().map(|_| ()).map_err(|e| e.to_string())
            );
        }
    }};
}

// ----------------------------------------------------------------------------- Call<M> decode

/// `Call<Meth>` from an object holding `method` plus the optional members selected by MASK
/// (bit 0 `parameters`, 1 `oneway`, 2 `more`, 3 `upgrade`, 4 an unknown member `x`) in the ORD-th
/// order; all values symbolic.
pub fn call_decode_order<const MASK: usize, const ORD: usize, const CASE: usize>(nd: &mut Nd) {
    let (k, order) = layout(MASK, ORD, 6);
    let has_params = MASK & 1 != 0;
    let which = nd.below(4);
    let v = nd.u32();
    // equal lengths keep the string comparisons over a concrete length
    let name = match which {
        0 => "org.example.Ping",
        1 => "org.example.Setv",
        2 => "org.example.Name",
        _ => "org.example.Nope",
    };
    // Spelling of the parameters member, fixed by the instance (the *shape* of a member is
    // concrete, its values are symbolic): 0 absent, 1 null, 2 {}, 3 {v: u32}, 4 {s: "ab"}.
    let spelling = if has_params { CASE + 1 } else { 0 };
    let params = match spelling {
        0 => Val::Absent,
        1 => Val::Leaf(Leaf::Null),
        2 => Val::Obj(Obj::empty()),
        3 => Val::Obj(Obj::one("v", Leaf::Num(v as u64))),
        _ => Val::Obj(Obj::one("s", Leaf::Str(Txt::new("ab")))),
    };
    let (ow, oneway) = flag_val(nd, MASK & 2 != 0);
    let (mo, more) = flag_val(nd, MASK & 4 != 0);
    let (up, upgrade) = flag_val(nd, MASK & 8 != 0);
    let x = extra_val(nd, MASK & 16 != 0);
    let members: [(&str, Val); 6] = [
        ("method", Val::Leaf(Leaf::Str(Txt::new(name)))),
        ("parameters", params),
        ("oneway", ow),
        ("more", mo),
        ("upgrade", up),
        ("x", x),
    ];
    let m = build(&members, k, &order);
    let r: Result<Call<Meth<'_>>, _> = from_tokens(&m);
    // What the schema says this object is.
    let expect: Option<Meth<'_>> = match (which, spelling) {
        (0, 0) | (0, 1) => Some(Meth::Ping),
        (1, 3) => Some(Meth::Set { v }),
        (2, 4) => Some(Meth::Name { s: "ab" }),
        _ => None,
    };
    // An object as content of a unit variant of a *user-defined* serde enum is the user's business
    // (the property names the library's own types for that clause): no verdict either way.
    let unconstrained = which == 0 && spelling >= 2;
    match (&r, expect) {
        (Ok(c), Some(e)) => {
            assert!(*c.method() == e, "C05.call_decodes_to_the_denoted_method");
            assert!(c.oneway() == oneway, "C05.oneway_recognised_in_any_position_absent_is_false");
            assert!(c.more() == more, "C05.more_recognised_in_any_position_absent_is_false");
            assert!(c.upgrade() == upgrade, "C05.upgrade_recognised_in_any_position_absent_is_false");
        }
        (Err(_), Some(_)) => panic!("C05.well_formed_call_decodes_in_any_member_order"),
        (Ok(_), None) => assert!(unconstrained, "C05.ill_formed_call_is_rejected"),
        (Err(_), None) => {}
    }
    xcheck!(Call<Meth<'_>>, &m, r.is_ok());
    if MASK & 14 == 14 && (!has_params || CASE == 2) {
        cover!(nd, r.is_ok() && oneway && more && upgrade, "all three flags set");
    } else if has_params && CASE >= 2 {
        cover!(nd, r.is_ok() && which == CASE - 1, "call with parameters decoded");
    } else {
        cover!(nd, r.is_ok(), "call without parameters decoded");
    }
    core::mem::forget(r);
}

/// Flags are hidden from the method type, every other member reaches it: `Call<Strict>` (a
/// method type that denies unknown members) accepts iff the unknown member `x` is absent.
/// MASK: bit 0 `oneway`, 1 `more`, 2 `upgrade`, 3 `x` (after the mandatory `method`; `parameters`
/// is mandatory too and takes part in the order as member 1).
pub fn call_decode_strict<const MASK: usize, const ORD: usize>(nd: &mut Nd) {
    let (k, order) = layout(1 | (MASK << 1), ORD, 6);
    let v = nd.u32();
    let (ow, oneway) = flag_val(nd, MASK & 1 != 0);
    let (mo, more) = flag_val(nd, MASK & 2 != 0);
    let (up, upgrade) = flag_val(nd, MASK & 4 != 0);
    let x = extra_val(nd, MASK & 8 != 0);
    let has_x = MASK & 8 != 0;
    let members: [(&str, Val); 6] = [
        ("method", Val::Leaf(Leaf::Str(Txt::new("a.B")))),
        ("parameters", Val::Obj(Obj::one("v", Leaf::Num(v as u64)))),
        ("oneway", ow),
        ("more", mo),
        ("upgrade", up),
        ("x", x),
    ];
    let m = build(&members, k, &order);
    let r: Result<Call<Strict<'_>>, _> = from_tokens(&m);
    match &r {
        Ok(c) => {
            assert!(!has_x, "C05.other_members_are_passed_to_the_method_type");
            assert!(c.method().method == "a.B" && c.method().parameters.v == v, "C05.call_decodes_to_the_denoted_method");
            assert!(c.oneway() == oneway && c.more() == more && c.upgrade() == upgrade,
                "C05.flags_recognised_in_any_position_absent_is_false");
        }
        Err(_) => assert!(has_x, "C05.flags_are_hidden_from_the_method_type"),
    }
    xcheck!(Call<Strict<'_>>, &m, r.is_ok());
    if has_x {
        cover!(nd, r.is_err(), "unknown member reached the strict method type");
    } else {
        cover!(nd, r.is_ok(), "strict method type accepted the call");
    }
    let _ = oneway;
    core::mem::forget(r);
}

/// The library's own method type: `GetInfo` with `parameters` absent / null / `{}`,
/// `GetInterfaceDescription` with its parameter. MASK: bit 0 `parameters`, bit 1 `more`.
pub fn service_method_decode<const MASK: usize, const ORD: usize, const CASE: usize>(nd: &mut Nd) {
    let (k, order) = layout(MASK, ORD, 3);
    let has_params = MASK & 1 != 0;
    // CASE = 2 * (spelling - 1) + which for instances with a parameters member, which otherwise
    let which = CASE % 2;
    let spelling = if has_params { CASE / 2 + 1 } else { 0 };
    let name = if which == 0 {
        "org.varlink.service.GetInfo"
    } else {
        "org.varlink.service.GetInterfaceDescription"
    };
    let ib = [nd.ascii()];
    nd.assume(ib[0].is_ascii_lowercase());
    let iface = crate::nd::str_of(&ib);
    let params = match spelling {
        0 => Val::Absent,
        1 => Val::Leaf(Leaf::Null),
        2 => Val::Obj(Obj::empty()),
        _ => Val::Obj(Obj::one("interface", Leaf::Str(Txt::new(iface)))),
    };
    let (mo, more) = flag_val(nd, MASK & 2 != 0);
    let members: [(&str, Val); 3] = [
        ("method", Val::Leaf(Leaf::Str(Txt::new(name)))),
        ("parameters", params),
        ("more", mo),
    ];
    let m = build(&members, k, &order);
    let r: Result<Call<varlink_service::Method<'_>>, _> = from_tokens(&m);
    match (which, spelling) {
        (0, 0) | (0, 1) => {
            assert!(matches!(&r, Ok(c) if matches!(c.method(), varlink_service::Method::GetInfo) && c.more() == more),
                "C05.service_method_without_parameters_decodes_absent_or_null");
        }
        (0, 2) => {
            assert!(matches!(&r, Ok(c) if matches!(c.method(), varlink_service::Method::GetInfo) && c.more() == more),
                "C05.service_method_without_parameters_decodes_empty_object");
        }
        (1, 3) => {
            assert!(
                matches!(&r, Ok(c) if matches!(c.method(), varlink_service::Method::GetInterfaceDescription { interface } if interface.as_bytes() == ib) && c.more() == more),
                "C05.service_method_with_parameters_decodes"
            );
        }
        (1, _) => assert!(r.is_err(), "C05.ill_formed_call_is_rejected"),
        _ => {}
    }
    xcheck!(Call<varlink_service::Method<'_>>, &m, r.is_ok());
    if has_params {
        cover!(nd, r.is_ok() && which == 1, "GetInterfaceDescription decoded");
    } else {
        cover!(nd, r.is_ok() && which == 0, "GetInfo decoded");
    }
    core::mem::forget(r);
}

// ------------------------------------------------------------------------- Call<M> round trip

/// decode(encode(c)) == c for every flag set and variant; the encoded object has exactly the
/// method type's members plus the flags that are set.
pub fn call_roundtrip(nd: &mut Nd) {
    let which = nd.below(3);
    let v = nd.u32();
    let meth = match which {
        0 => Meth::Ping,
        1 => Meth::Set { v },
        _ => Meth::Name { s: "ab" },
    };
    let (oneway, more, upgrade) = (nd.bool(), nd.bool(), nd.bool());
    let call = Call::new(meth).set_oneway(oneway).set_more(more).set_upgrade(upgrade);
    let m = match to_tokens(&call) {
        Ok(m) => m,
        Err(_) => panic!("C05.call_encodes"),
    };
    // Shape: method, [parameters], then only the flags that are set.
    let expected_members = 1 + (which != 0) as usize + oneway as usize + more as usize + upgrade as usize;
    assert!(m.n == expected_members, "C05.call_has_exactly_the_method_members_plus_set_flags");
    assert!(m.find("method").is_some(), "C05.call_has_method_member");
    assert!(m.find("parameters").is_some() == (which != 0), "C05.call_parameters_member_only_with_fields");
    assert!(flag_is(&m, "oneway") == if oneway { Some(true) } else { None }, "C05.oneway_appears_only_when_set");
    assert!(flag_is(&m, "more") == if more { Some(true) } else { None }, "C05.more_appears_only_when_set");
    assert!(flag_is(&m, "upgrade") == if upgrade { Some(true) } else { None }, "C05.upgrade_appears_only_when_set");
    if let Some(i) = m.find("method") {
        let name = match which {
            0 => "org.example.Ping",
            1 => "org.example.Setv",
            _ => "org.example.Name",
        };
        assert!(matches!(m.vals[i].as_leaf(), Some(l) if l.is_str(name)), "C05.call_method_name_is_the_declared_one");
    }
    if which == 1 {
        let i = m.find("parameters").unwrap_or(0);
        assert!(
            matches!(m.vals[i].as_obj(), Some(o) if o.n == 1 && o.keys[0].is("v") && o.vals[0].is_num(v as u64)),
            "C05.call_parameters_hold_the_fields"
        );
    }
    let back: Result<Call<Meth<'_>>, _> = from_tokens(&m);
    match &back {
        Ok(c) => {
            assert!(*c.method() == meth, "C05.call_roundtrip_method");
            assert!(c.oneway() == oneway && c.more() == more && c.upgrade() == upgrade, "C05.call_roundtrip_flags");
        }
        Err(_) => panic!("C05.call_roundtrip_decodes"),
    }
    cover!(nd, oneway && more && upgrade && which == 1, "struct variant with all flags");
    core::mem::forget(back);
}

fn flag_is(m: &MapTok, k: &str) -> Option<bool> {
    match m.find(k) {
        Some(i) => match m.vals[i].as_leaf() {
            Some(l) if l.kind == crate::tok::K_BOOL => Some(l.b),
            _ => Some(false),
        },
        None => None,
    }
}

// ------------------------------------------------------------------------------- error enums

/// Derived error enum → `{"error": "<interface>.<Variant>"}` plus `parameters` exactly when the
/// variant has fields, under their wire names; round trip.
pub fn error_encode_roundtrip(nd: &mut Nd) {
    error_encode_roundtrip_v::<6, false>(nd)
}

/// The same with the variant (W < 6) and the presence of its optional field (OPT) fixed by the
/// instance - the shape of the value is concrete, its field values symbolic (12.4); W = 6: both
/// symbolic.
pub fn error_encode_roundtrip_v<const W: usize, const OPT: bool>(nd: &mut Nd) {
    let which = if W < 6 { W } else { nd.below(6) };
    let v = nd.u32();
    let has_opt = if W < 6 { OPT } else { nd.bool() };
    let e = match which {
        0 => ErrA::Unit,
        1 => ErrA::Other,
        2 => ErrA::Code { code: v },
        3 => ErrA::Rena { rust_name: v },
        4 => ErrA::Msgs { msg: "hi", opt: if has_opt { Some(v) } else { None } },
        _ => ErrA::Opts { o: if has_opt { Some(v) } else { None } },
    };
    let m = match to_tokens(&e) {
        Ok(m) => m,
        Err(_) => panic!("C05.error_encodes"),
    };
    let name = match which {
        0 => "org.ex.Unit",
        1 => "org.ex.Other",
        2 => "org.ex.Code",
        3 => "org.ex.Rena",
        4 => "org.ex.Msgs",
        _ => "org.ex.Opts",
    };
    assert!(m.n == if which < 2 { 1 } else { 2 }, "C05.error_has_parameters_exactly_when_it_has_fields");
    assert!(matches!(m.find("error"), Some(i) if matches!(m.vals[i].as_leaf(), Some(l) if l.is_str(name))),
        "C05.error_name_is_interface_dot_variant");
    if which >= 2 {
        let i = match m.find("parameters") {
            Some(i) => i,
            None => panic!("C05.error_has_parameters_exactly_when_it_has_fields"),
        };
        let o = match m.vals[i].as_obj() {
            Some(o) => o,
            None => panic!("C05.error_parameters_is_an_object"),
        };
        match which {
            2 => assert!(o.n == 1 && o.keys[0].is("code") && o.vals[0].is_num(v as u64),
                "C05.error_fields_under_their_wire_names"),
            3 => assert!(o.n == 1 && o.keys[0].is("wireName") && o.vals[0].is_num(v as u64),
                "C05.error_fields_under_their_wire_names"),
            5 => assert!(
                o.n == 1 && o.keys[0].is("o") && if has_opt { o.vals[0].is_num(v as u64) } else { o.vals[0].is_null() },
                "C05.error_fields_under_their_wire_names"
            ),
            _ => {
                assert!(o.n == 2 && o.keys[0].is("msg") && o.keys[1].is("opt"), "C05.error_fields_under_their_wire_names");
                assert!(o.vals[0].is_str("hi"), "C05.error_fields_under_their_wire_names");
                assert!(
                    if has_opt { o.vals[1].is_num(v as u64) } else { o.vals[1].is_null() },
                    "C05.error_fields_under_their_wire_names"
                );
            }
        }
    }
    let back: Result<ErrA<'_>, _> = from_tokens(&m);
    assert!(matches!(&back, Ok(b) if *b == e), "C05.error_roundtrip");
    if W == 6 {
        cover!(nd, which == 4 && has_opt, "borrowed + optional field variant");
        cover!(nd, which == 5 && !has_opt, "all-optional variant with nothing set");
    } else {
        cover!(nd, v != 0, "round trip compared");
    }
    core::mem::forget(back);
}

/// Derived error enum decoded from `error` plus the members selected by MASK (bit 0
/// `parameters`, bit 1 an unknown member `x`) in the ORD-th order; field-less variants with
/// `parameters` absent, null or `{}`.
pub fn error_decode_order<const MASK: usize, const ORD: usize, const CASE: usize>(nd: &mut Nd) {
    let (k, order) = layout(MASK, ORD, 3);
    let has_params = MASK & 1 != 0;
    let which = nd.below(5);
    let v = nd.u32();
    // Shape of the parameters member, fixed by the instance: 0 absent, 1 null, 2 {}, 3 {code},
    // 4 {wireName}, 5 {msg}, 6 {msg, opt}.
    let spelling = if has_params { CASE + 1 } else { 0 };
    // equal lengths keep the string comparisons over a concrete length
    let name = match which {
        0 => "org.ex.Unit",
        1 => "org.ex.Code",
        2 => "org.ex.Rena",
        3 => "org.ex.Msgs",
        _ => "org.ex.Nope",
    };
    let params = match spelling {
        0 => Val::Absent,
        1 => Val::Leaf(Leaf::Null),
        2 => Val::Obj(Obj::empty()),
        3 => Val::Obj(Obj::one("code", Leaf::Num(v as u64))),
        4 => Val::Obj(Obj::one("wireName", Leaf::Num(v as u64))),
        5 => Val::Obj(Obj::one("msg", Leaf::Str(Txt::new("hi")))),
        _ => {
            let mut o = Obj::one("msg", Leaf::Str(Txt::new("hi")));
            o.n = 2;
            o.keys[1] = Txt::new("opt");
            o.vals[1] = Leaf::Num(v as u64);
            Val::Obj(o)
        }
    };
    let x = extra_val(nd, MASK & 2 != 0);
    let members: [(&str, Val); 3] = [
        ("error", Val::Leaf(Leaf::Str(Txt::new(name)))),
        ("parameters", params),
        ("x", x),
    ];
    let m = build(&members, k, &order);
    let r: Result<ErrA<'_>, _> = from_tokens(&m);
    match (which, spelling) {
        (0, 0) | (0, 1) => assert!(matches!(&r, Ok(ErrA::Unit)), "C05.fieldless_error_decodes_with_parameters_absent_or_null"),
        (0, 2) => assert!(matches!(&r, Ok(ErrA::Unit)), "C05.fieldless_error_decodes_with_empty_object_parameters"),
        (1, 3) => assert!(matches!(&r, Ok(ErrA::Code { code }) if *code == v), "C05.error_decodes_in_any_member_order"),
        (2, 4) => assert!(matches!(&r, Ok(ErrA::Rena { rust_name }) if *rust_name == v), "C05.error_decodes_renamed_field_in_any_member_order"),
        (3, 5) => assert!(matches!(&r, Ok(ErrA::Msgs { msg, opt: None }) if *msg == "hi"), "C05.error_decodes_in_any_member_order"),
        (3, 6) => assert!(matches!(&r, Ok(ErrA::Msgs { msg, opt: Some(o) }) if *msg == "hi" && *o == v), "C05.error_decodes_in_any_member_order"),
        (1, 0..=2) | (2, 0..=2) | (3, 0..=2) => assert!(r.is_err(), "C05.error_with_missing_fields_is_rejected"),
        (4, _) => assert!(r.is_err(), "C05.undeclared_error_name_is_rejected"),
        _ => {}
    }
    xcheck!(ErrA<'_>, &m, r.is_ok());
    if has_params && CASE >= 2 {
        cover!(nd, r.is_ok() && which != 0, "struct variant decoded");
    } else {
        cover!(nd, r.is_ok() && which == 0, "unit variant decoded");
    }
    core::mem::forget(r);
}

/// The standard service errors: unit variants with `parameters` absent / null / `{}`; a struct
/// variant with its field. MASK: bit 0 `parameters`.
pub fn service_error_decode<const MASK: usize, const ORD: usize, const CASE: usize>(nd: &mut Nd) {
    let (k, order) = layout(MASK, ORD, 2);
    let has_params = MASK & 1 != 0;
    // CASE = 3 * (spelling - 1) + which for instances with a parameters member, which otherwise
    let which = CASE % 3;
    let spelling = if has_params { CASE / 3 + 1 } else { 0 };
    let name = match which {
        0 => "org.varlink.service.PermissionDenied",
        1 => "org.varlink.service.ExpectedMore",
        _ => "org.varlink.service.MethodNotFound",
    };
    let mb = [nd.ascii()];
    nd.assume(mb[0].is_ascii_alphabetic());
    let params = match spelling {
        0 => Val::Absent,
        1 => Val::Leaf(Leaf::Null),
        2 => Val::Obj(Obj::empty()),
        _ => Val::Obj(Obj::one("method", Leaf::Str(Txt::new(crate::nd::str_of(&mb))))),
    };
    let members: [(&str, Val); 2] = [("error", Val::Leaf(Leaf::Str(Txt::new(name)))), ("parameters", params)];
    let m = build(&members, k, &order);
    let r: Result<varlink_service::Error, _> = from_tokens(&m);
    let unit_ok = match (&r, which) {
        (Ok(varlink_service::Error::PermissionDenied), 0) => true,
        (Ok(varlink_service::Error::ExpectedMore), 1) => true,
        _ => false,
    };
    match (which, spelling) {
        (0, 0) | (0, 1) | (1, 0) | (1, 1) => assert!(unit_ok, "C05.service_error_without_parameters_decodes_absent_or_null"),
        (0, 2) | (1, 2) => assert!(unit_ok, "C05.service_error_without_parameters_decodes_empty_object"),
        (2, 3) => assert!(
            matches!(&r, Ok(varlink_service::Error::MethodNotFound { method }) if method.as_bytes() == mb),
            "C05.service_error_with_parameters_decodes"
        ),
        (2, _) => assert!(r.is_err(), "C05.error_with_missing_fields_is_rejected"),
        _ => {}
    }
    xcheck!(varlink_service::Error, &m, r.is_ok());
    if has_params {
        cover!(nd, matches!(&r, Ok(varlink_service::Error::MethodNotFound { .. })), "struct variant decoded");
    } else {
        cover!(nd, unit_ok, "unit variant decoded");
    }
    core::mem::forget(r);
}

// ------------------------------------------------------------------------------------ Reply<T>

#[derive(Debug, Serialize, Deserialize, PartialEq, Clone, Copy)]
pub struct Out {
    pub n: u32,
}

/// `Reply<Out>`: `parameters` and `continues` appear only when present; any order; round trip.
pub fn reply_roundtrip(nd: &mut Nd) {
    let v = nd.u32();
    let params = if nd.bool() { Some(Out { n: v }) } else { None };
    let continues = match nd.below(3) {
        0 => None,
        1 => Some(false),
        _ => Some(true),
    };
    let reply = Reply::new(params).set_continues(continues);
    let m = match to_tokens(&reply) {
        Ok(m) => m,
        Err(_) => panic!("C05.reply_encodes"),
    };
    assert!(m.n == params.is_some() as usize + continues.is_some() as usize, "C05.reply_members_only_when_present");
    assert!(m.find("parameters").is_some() == params.is_some(), "C05.reply_parameters_only_when_present");
    assert!(flag_is(&m, "continues") == continues, "C05.reply_continues_only_when_present");
    // decode from the reversed member order as well
    let swap = nd.bool();
    let mut m2 = m;
    if swap && m.n == 2 {
        m2.keys[0] = m.keys[1];
        m2.vals[0] = m.vals[1];
        m2.keys[1] = m.keys[0];
        m2.vals[1] = m.vals[0];
    }
    let back: Result<Reply<Out>, _> = from_tokens(&m2);
    match &back {
        Ok(r) => {
            assert!(r.parameters().copied() == params, "C05.reply_roundtrip_parameters");
            assert!(r.continues() == continues, "C05.reply_roundtrip_continues");
        }
        Err(_) => panic!("C05.reply_roundtrip_decodes"),
    }
    xcheck!(Reply<Out>, &m2, back.is_ok());
    cover!(nd, swap && m.n == 2, "members in reverse order");
    core::mem::forget(back);
}
