//! C18 — round-robin selection (helper level): the real `SelectAll` driven through the
//! `verif_select_all` forwarder.

use crate::{cover, exec::poll_once, Nd};
use core::{
    cell::Cell,
    future::Future,
    pin::Pin,
    task::{Context, Poll},
};
use zlink_core::verif::verif_select_all;

const MAXF: usize = 4;

struct Probe<'a> {
    idx: usize,
    ready: bool,
    polls: &'a [Cell<u8>; MAXF],
    order: &'a Cell<u8>,
    stamp: &'a [Cell<u8>; MAXF],
}

impl Future for Probe<'_> {
    type Output = usize;
    fn poll(self: Pin<&mut Self>, _cx: &mut Context<'_>) -> Poll<usize> {
        self.polls[self.idx].set(self.polls[self.idx].get() + 1);
        self.order.set(self.order.get() + 1);
        self.stamp[self.idx].set(self.order.get());
        if self.ready {
            Poll::Ready(self.idx)
        } else {
            Poll::Pending
        }
    }
}

/// One selection round over `n` probes; returns the winner, asserting the whole contract.
fn round(
    nd: &mut Nd,
    n: usize,
    ready: &[bool; MAXF],
    start: Option<usize>,
) -> Option<usize> {
    let polls: [Cell<u8>; MAXF] = Default::default();
    let stamp: [Cell<u8>; MAXF] = Default::default();
    let order = Cell::new(0u8);
    let mut futs: [Probe<'_>; MAXF] = core::array::from_fn(|i| Probe {
        idx: i,
        ready: ready[i],
        polls: &polls,
        order: &order,
        stamp: &stamp,
    });

    let res = {
        let fut = verif_select_all(&mut futs[..n], start);
        let mut fut = core::pin::pin!(fut);
        poll_once(fut.as_mut())
    };

    if n == 0 {
        assert!(res.is_pending(), "C18.empty_set_is_pending");
        return None;
    }
    let s = match start {
        Some(v) => v % n,
        None => 0,
    };

    // Reference: first ready index in cyclic order from s.
    let mut expect: Option<usize> = None;
    let mut k = 0;
    while k < n {
        let idx = (s + k) % n;
        if ready[idx] {
            expect = Some(idx);
            break;
        }
        k += 1;
    }

    match (&res, expect) {
        (Poll::Ready((idx, out)), Some(e)) => {
            assert!(*idx == e, "C18.winner_is_first_ready_in_cyclic_order");
            assert!(*out == e, "C18.output_belongs_to_winner");
        }
        (Poll::Pending, None) => {}
        (Poll::Ready(_), None) => panic!("C18.ready_without_ready_future"),
        (Poll::Pending, Some(_)) => panic!("C18.pending_although_a_future_is_ready"),
    }

    // Poll discipline: exactly the futures from s up to and including the winner were polled,
    // once each, in cyclic order; nobody behind the winner and nobody outside the set.
    let upto = match expect {
        Some(_) => k + 1,
        None => n,
    };
    let mut j = 0;
    while j < MAXF {
        let dist = if j < n { (j + n - s) % n } else { MAXF };
        if j < n && dist < upto {
            assert!(polls[j].get() == 1, "C18.polled_exactly_once_up_to_winner");
            assert!(stamp[j].get() as usize == dist + 1, "C18.polled_in_cyclic_order");
        } else {
            assert!(polls[j].get() == 0, "C18.not_polled_behind_winner");
        }
        j += 1;
    }
    if n >= 2 {
        cover!(nd, expect.is_some() && s > 0 && expect.unwrap() < s, "winner found after wrap-around");
    }
    match res {
        Poll::Ready((idx, _)) => Some(idx),
        Poll::Pending => None,
    }
}

fn any_start(nd: &mut Nd) -> Option<usize> {
    if nd.bool() {
        Some(nd.usize())
    } else {
        None
    }
}

/// n ≤ 4 futures, any readiness, any start index (including ≥ n and None).
pub fn select_all_contract<const N: usize>(nd: &mut Nd) {
    let n = N;
    let ready: [bool; MAXF] = [nd.bool(), nd.bool(), nd.bool(), nd.bool()];
    let start = any_start(nd);
    if n > 0 {
        cover!(nd, matches!(start, Some(v) if v >= n), "start index beyond the set");
        cover!(nd, !ready[0] && !ready[1] && !ready[2] && !ready[3], "nobody ready");
    }
    cover!(nd, start.is_none(), "no start index");
    round(nd, n, &ready, start);
}

/// Two consecutive rounds over an unchanged set with `start₂ = winner₁ + 1` (the rule the server
/// loop uses) while some *other* future is ready in both rounds: the same future does not win
/// twice. Readiness of all other futures may change arbitrarily between the rounds.
pub fn select_all_fair_step<const N: usize>(nd: &mut Nd) {
    let n = N;
    let ready1: [bool; MAXF] = [nd.bool(), nd.bool(), nd.bool(), nd.bool()];
    let ready2: [bool; MAXF] = [nd.bool(), nd.bool(), nd.bool(), nd.bool()];
    let start1 = any_start(nd);
    let w1 = match round(nd, n, &ready1, start1) {
        Some(w) => w,
        None => {
            nd.assume(false);
            return;
        }
    };
    // A different connection has had a complete call waiting the whole time.
    let j = nd.below(MAXF);
    nd.assume(j < n && j != w1 && ready1[j] && ready2[j]);
    let w2 = round(nd, n, &ready2, Some(w1 + 1));
    assert!(w2.is_some(), "C18.second_round_serves_someone");
    assert!(w2 != Some(w1), "C18.same_connection_not_served_twice_while_other_waits");
    cover!(nd, ready2[w1], "flooder ready again in round 2");
}

/// Starvation bound for an unchanged set: a future that stays ready is served within n rounds,
/// whatever the others do, when each round starts behind the previous winner.
pub fn select_all_bounded_wait<const N: usize>(nd: &mut Nd) {
    let n = N;
    let j = nd.below(MAXF);
    nd.assume(j < n);
    let mut start = any_start(nd);
    let mut served = false;
    let mut r = 0;
    while r < MAXF {
        if r < n && !served {
            let mut ready: [bool; MAXF] = [nd.bool(), nd.bool(), nd.bool(), nd.bool()];
            ready[j] = true;
            let w = round(nd, n, &ready, start);
            match w {
                Some(w) => {
                    if w == j {
                        served = true;
                    }
                    start = Some(w + 1);
                }
                None => panic!("C18.pending_although_a_future_is_ready"),
            }
        }
        r += 1;
    }
    assert!(served, "C18.waiting_future_served_within_n_rounds");
}
