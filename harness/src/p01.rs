//! C01 (transport half), C07 (cancel safety), C17 (inbound limit): the real
//! `ReadConnection::read_from_socket` from every concrete pre-state of the small build, against a
//! reference model of "append what the transport delivers, stop at the first chunk that ends in
//! NUL, refuse at the limit".

use crate::{
    cover,
    exec::poll_once,
    sock::{ScriptRead, Step, CHUNK, STEPS},
    Nd,
};
use core::task::Poll;
use zlink_core::connection::{
    verif::{BUFFER_SIZE as STEP, MAX_BUFFER_SIZE as MAX},
    ReadConnection,
};

pub const BUFMAX: usize = 40;

#[derive(Clone, Copy, PartialEq, Debug)]
pub enum Outcome {
    /// The call is still pending after all polls the harness makes.
    Pending,
    Ok,
    Eof,
    SocketErr,
    Overflow,
}

/// What must be true of the connection after the script was (partly) consumed.
pub struct Model {
    pub outcome: Outcome,
    /// Bytes that must now be in the buffer, in order, from index 0.
    pub data: [u8; BUFMAX],
    pub read_pos: usize,
    /// Number of script steps the call may consume.
    pub steps_used: usize,
}

/// Draw a script of `k` steps: each step is symbolic in kind, length (1..=CHUNK) and content.
pub fn any_script(nd: &mut Nd, k: usize, allow_pending: bool) -> [Step; STEPS] {
    let mut steps = [Step::Eof; STEPS];
    let mut i = 0;
    while i < STEPS {
        if i < k {
            let kind = nd.below(4);
            let n = nd.range(1, CHUNK);
            let mut bytes = [0u8; CHUNK];
            let mut j = 0;
            while j < CHUNK {
                bytes[j] = nd.u8();
                j += 1;
            }
            steps[i] = match kind {
                0 => Step::Data { n, bytes },
                1 => {
                    if !allow_pending {
                        nd.assume(false);
                    }
                    Step::Pending
                }
                2 => Step::Eof,
                _ => Step::Fail,
            };
        }
        i += 1;
    }
    steps
}

/// Reference model of one `read_from_socket` call with `msg_pos == 0`, starting from
/// (`len`, `read_pos`, first `read_pos` bytes = `pre`), given a script and a budget of polls.
pub fn model(
    len: usize,
    read_pos: usize,
    pre: &[u8; BUFMAX],
    steps: &[Step; STEPS],
    nsteps: usize,
) -> Model {
    let mut m = Model {
        outcome: Outcome::Pending,
        data: *pre,
        read_pos,
        steps_used: 0,
    };
    let mut cur_len = len;
    let mut k = 0;
    // A poll runs until the transport is pending or the call completes; pending steps only cost
    // polls, of which the harness makes enough (one per step plus one).
    while k <= STEPS {
        if k >= nsteps || k >= STEPS {
            // script exhausted: end of stream
            m.outcome = Outcome::Eof;
            break;
        }
        m.steps_used = k + 1;
        match steps[k] {
            Step::Pending => {}
            Step::Eof => {
                m.outcome = Outcome::Eof;
                break;
            }
            Step::Fail => {
                m.outcome = Outcome::SocketErr;
                break;
            }
            Step::Data { n, bytes } => {
                let space = cur_len - m.read_pos;
                let put = if n < space { n } else { space };
                let mut i = 0;
                while i < CHUNK {
                    if i < put {
                        m.data[m.read_pos + i] = bytes[i];
                    }
                    i += 1;
                }
                m.read_pos += put;
                if m.read_pos == cur_len {
                    if cur_len >= MAX {
                        m.outcome = Outcome::Overflow;
                        break;
                    }
                    cur_len += STEP;
                }
                if m.data[m.read_pos - 1] == 0 {
                    m.outcome = Outcome::Ok;
                    break;
                }
            }
        }
        k += 1;
    }
    m
}

fn classify(r: &zlink_core::Result<()>) -> Outcome {
    match r {
        Ok(()) => Outcome::Ok,
        Err(zlink_core::Error::UnexpectedEof) => Outcome::Eof,
        Err(zlink_core::Error::SocketRead) => Outcome::SocketErr,
        Err(zlink_core::Error::BufferOverflow) => Outcome::Overflow,
        Err(_) => Outcome::Pending, // never expected; compared against the model below
    }
}

/// One `read_from_socket` call from the concrete state (LEN, RP, msg_pos = 0) with a symbolic
/// script of K steps. With CANCEL, the pending future is dropped and re-created at a symbolic
/// subset of the suspension points (C07).
pub fn read_step<const LEN: usize, const RP: usize, const K: usize, const CANCEL: bool>(nd: &mut Nd) {
    // Pre-state: arbitrary bytes already buffered (a partial frame: last one is not NUL).
    let mut pre = [0x55u8; BUFMAX];
    let mut i = 0;
    while i < RP {
        pre[i] = nd.u8();
        i += 1;
    }
    if RP > 0 {
        nd.assume(pre[RP - 1] != 0);
    }
    let steps = any_script(nd, K, true);
    let mut buffer = vec![0x55u8; LEN];
    let mut i = 0;
    while i < RP {
        buffer[i] = pre[i];
        i += 1;
    }
    // K scripted steps plus the end-of-stream poll; anything beyond is outside the bound.
    crate::sock::set_read_poll_limit(K + 1);
    let mut conn = ReadConnection::verif_from_parts(ScriptRead::new(&steps, K), buffer, RP, 0, 3);

    // Driver with *concrete* trip counts (every poll site is guarded instead of the loops being
    // left early): CBMC keeps unrolling a loop whose exit test became symbolic after a merge.
    // Every poll consumes at least one script step, so a call completes within K + 1 polls in
    // total; future number f only exists after f abandonments, i.e. it gets at most K + 1 - f.
    let mut cancels = 0;
    let mut result: Option<zlink_core::Result<()>> = None;
    let mut f = 0;
    while f <= K {
        if result.is_none() {
            let fut = conn.verif_read_from_socket();
            let mut fut = core::pin::pin!(fut);
            let mut dropped = false;
            let mut p = 0;
            while p + f <= K {
                if result.is_none() && !dropped {
                    match poll_once(fut.as_mut()) {
                        Poll::Ready(r) => result = Some(r),
                        Poll::Pending => {
                            if CANCEL && nd.bool() {
                                cancels += 1;
                                dropped = true; // abandon this receive here, start a new one later
                            }
                        }
                    }
                }
                p += 1;
            }
        }
        if !CANCEL {
            break;
        }
        f += 1;
    }

    let m = model(LEN, RP, &pre, &steps, K);
    let (buf, read_pos, msg_pos) = conn.verif_parts();
    let got = match &result {
        Some(r) => classify(r),
        None => Outcome::Pending,
    };
    if let Some(r) = result {
        core::mem::forget(r);
    }
    assert!(got == m.outcome, "C01.read_outcome_matches_delivery");
    assert!(read_pos == m.read_pos, "C01.every_delivered_byte_is_accounted_for");
    assert!(msg_pos == 0, "C01.message_cursor_untouched_by_transport_read");
    assert!(buf.len() <= MAX, "C17.in_buffer_stays_within_limit");
    assert!(conn.read_half().next == m.steps_used, "C01.reads_stop_at_first_chunk_ending_in_nul");
    // Buffer content: what was there, followed by the chunks in delivery order.
    let mut i = 0;
    while i < BUFMAX {
        if i < m.read_pos {
            assert!(buf[i] == m.data[i], "C01.delivered_bytes_in_order_none_lost_none_duplicated");
        }
        i += 1;
    }
    match m.outcome {
        Outcome::Ok => {
            assert!(read_pos < buf.len(), "C01.sentinel_in_bounds");
            assert!(buf[read_pos] == 0, "C01.sentinel_after_data");
            assert!(buf[read_pos - 1] == 0, "C01.returns_only_at_frame_end");
        }
        Outcome::Overflow => {
            assert!(read_pos >= MAX, "C17.in_overflow_only_at_the_limit");
        }
        _ => {
            // Error or still pending: the connection is in a state the family covers again.
            assert!(read_pos < buf.len(), "C01.state_invariant_after_error_or_pending");
        }
    }
    cover!(nd, m.outcome == Outcome::Ok && m.steps_used == K, "frame completed by the last chunk");
    if K >= 2 {
        cover!(nd, m.outcome == Outcome::Ok && m.read_pos > LEN, "buffer grew and the frame completed");
    }
    if CANCEL {
        cover!(nd, cancels > 0 && m.outcome == Outcome::Ok, "frame completed after a cancelled receive");
    }
    if LEN == MAX {
        cover!(nd, m.outcome == Outcome::Overflow, "limit reached");
    }
    core::mem::forget(conn);
}

/// With a message already buffered (`msg_pos > 0`) the transport is not touched.
pub fn read_step_buffered<const LEN: usize, const RP: usize, const MP: usize>(nd: &mut Nd) {
    let steps = any_script(nd, 1, true);
    let mut buffer = vec![0u8; LEN];
    let mut i = 0;
    while i < RP {
        buffer[i] = nd.u8();
        i += 1;
    }
    let mut conn = ReadConnection::verif_from_parts(ScriptRead::new(&steps, 1), buffer, RP, MP, 3);
    let r = {
        let fut = conn.verif_read_from_socket();
        let mut fut = core::pin::pin!(fut);
        poll_once(fut.as_mut())
    };
    assert!(matches!(r, Poll::Ready(Ok(()))), "C01.buffered_frames_served_before_reading");
    core::mem::forget(r);
    let (_, read_pos, msg_pos) = conn.verif_parts();
    assert!(conn.read_half().calls == 0, "C01.buffered_frames_served_before_reading");
    assert!(read_pos == RP && msg_pos == MP, "C01.buffered_frames_served_before_reading");
    core::mem::forget(conn);
}

/// A fresh connection starts in the state the induction starts from.
pub fn read_init(_nd: &mut Nd) {
    use crate::sock::ScriptSocket;
    let (r, _w) = zlink_core::Connection::new(ScriptSocket::idle()).split();
    let (buf, read_pos, msg_pos) = r.verif_parts();
    assert!(read_pos == 0 && msg_pos == 0, "C01.fresh_connection_is_empty");
    assert!(buf.len() == STEP && buf.len() <= MAX, "C01.fresh_connection_buffer");
    core::mem::forget(r);
}

/// Relational form of C07: two real connections, same script; A's receive is cancelled at a
/// symbolic subset of suspension points, B's never. Same final state, same result.
pub fn cancel_relational<const LEN: usize, const RP: usize, const K: usize>(nd: &mut Nd) {
    let mut pre = [0x55u8; BUFMAX];
    let mut i = 0;
    while i < RP {
        pre[i] = nd.u8();
        i += 1;
    }
    if RP > 0 {
        nd.assume(pre[RP - 1] != 0);
    }
    let steps = any_script(nd, K, true);
    let mk = |pre: &[u8; BUFMAX]| {
        let mut buffer = vec![0x55u8; LEN];
        let mut i = 0;
        while i < RP {
            buffer[i] = pre[i];
            i += 1;
        }
        ReadConnection::verif_from_parts(ScriptRead::new(&steps, K), buffer, RP, 0, 3)
    };
    crate::sock::set_read_poll_limit(K + 1);
    let mut a = mk(&pre);
    let mut b = mk(&pre);
    // B: one future, never dropped (concrete trip counts, see `read_step`).
    let rb = {
        let fut = b.verif_read_from_socket();
        let mut fut = core::pin::pin!(fut);
        let mut r = Poll::Pending;
        let mut p = 0;
        while p <= K {
            if r.is_pending() {
                r = poll_once(fut.as_mut());
            }
            p += 1;
        }
        r
    };
    // A: dropped and re-created at symbolic suspension points.
    let mut ra = Poll::Pending;
    let mut cancels = 0;
    let mut f = 0;
    while f <= K {
        if ra.is_pending() {
            let fut = a.verif_read_from_socket();
            let mut fut = core::pin::pin!(fut);
            let mut dropped = false;
            let mut p = 0;
            while p + f <= K {
                if ra.is_pending() && !dropped {
                    ra = poll_once(fut.as_mut());
                    if ra.is_pending() && nd.bool() {
                        cancels += 1;
                        dropped = true;
                    }
                }
                p += 1;
            }
        }
        f += 1;
    }
    let oa = match &ra {
        Poll::Ready(r) => classify(r),
        Poll::Pending => Outcome::Pending,
    };
    let ob = match &rb {
        Poll::Ready(r) => classify(r),
        Poll::Pending => Outcome::Pending,
    };
    core::mem::forget(ra);
    core::mem::forget(rb);
    assert!(oa == ob, "C07.cancelled_receive_yields_same_result");
    let (ba, rpa, mpa) = a.verif_parts();
    let (bb, rpb, mpb) = b.verif_parts();
    assert!(rpa == rpb && mpa == mpb, "C07.cancelled_receive_leaves_same_cursors");
    assert!(ba.len() == bb.len(), "C07.cancelled_receive_leaves_same_buffer");
    let mut i = 0;
    while i < BUFMAX {
        if i < rpa {
            assert!(ba[i] == bb[i], "C07.cancelled_receive_loses_duplicates_reorders_nothing");
        }
        i += 1;
    }
    cover!(nd, cancels > 0 && oa == Outcome::Ok, "frame completed after a cancelled receive");
    core::mem::forget(a);
    core::mem::forget(b);
}

// ------------------------------------------------------------------------------------------
// Layer 2: frames end to end through the real `read_message` (transport read + frame boundary +
// serde_json decode), with symbolic frame *content*.

/// Reference: is `s` (no NUL inside) a JSON document of shape `u8`? `ws* int ws*` with
/// `int = 0 | [1-9][0-9]*` and value ≤ 255 (RFC 8259 number without fraction/exponent).
pub fn ref_u8_doc(s: &[u8]) -> Option<u8> {
    let ws = |b: u8| matches!(b, b' ' | b'\t' | b'\n' | b'\r');
    let mut i = 0;
    while i < s.len() && ws(s[i]) {
        i += 1;
    }
    let start = i;
    let mut v: u32 = 0;
    while i < s.len() && s[i].is_ascii_digit() {
        v = v * 10 + (s[i] - b'0') as u32;
        if v > 255 {
            return None;
        }
        i += 1;
    }
    let digits = i - start;
    if digits == 0 || (digits > 1 && s[start] == b'0') {
        return None;
    }
    while i < s.len() && ws(s[i]) {
        i += 1;
    }
    if i == s.len() {
        Some(v as u8)
    } else {
        None
    }
}

#[derive(Clone, Copy, PartialEq, Debug)]
pub enum Got<M> {
    Val(M),
    DecodeErr,
    Eof,
    Other,
    Pending,
}

/// A message type for layer 2 together with its reference: what decoding one frame (no NUL
/// inside) as this type must yield.
pub trait RefDoc: for<'de> serde::Deserialize<'de> + core::fmt::Debug + PartialEq + Copy {
    fn reference(frame: &[u8]) -> Option<Self>;
}

impl RefDoc for u8 {
    fn reference(frame: &[u8]) -> Option<u8> {
        ref_u8_doc(frame)
    }
}

/// Decoder that takes nothing from the document: `serde_json::from_slice::<Skip>` succeeds iff the
/// frame consists of JSON whitespace only (serde_json's end-of-input check), and fails with a
/// JSON error on any other byte. It keeps serde_json's value parsers (the cost that made the `u8`
/// variant undecidable: number parsing falls into the f64 path) out of the formula while the slice
/// handed to the decoder stays observable through the verdict: with arbitrary frame bytes, a slice
/// that is one byte too long or too short changes the verdict for some assignment.
#[derive(Debug, PartialEq, Clone, Copy)]
pub struct Skip;
impl<'de> serde::Deserialize<'de> for Skip {
    fn deserialize<D: serde::Deserializer<'de>>(_d: D) -> Result<Self, D::Error> {
        Ok(Skip)
    }
}

impl RefDoc for Skip {
    fn reference(frame: &[u8]) -> Option<Skip> {
        let mut i = 0;
        let mut all_ws = true;
        while i < frame.len() {
            if !matches!(frame[i], b' ' | b'\t' | b'\n' | b'\r') {
                all_ws = false;
            }
            i += 1;
        }
        if all_ws { Some(Skip) } else { None }
    }
}

/// Decoder for the JSON literal `null` (serde_json's `deserialize_unit`), the cheapest decoder
/// that consumes a real value: `ws* null ws*`.
#[derive(Debug, PartialEq, Clone, Copy)]
pub struct Null;
impl<'de> serde::Deserialize<'de> for Null {
    fn deserialize<D: serde::Deserializer<'de>>(d: D) -> Result<Self, D::Error> {
        <()>::deserialize(d).map(|_| Null)
    }
}

impl RefDoc for Null {
    fn reference(frame: &[u8]) -> Option<Null> {
        let ws = |b: u8| matches!(b, b' ' | b'\t' | b'\n' | b'\r');
        let mut i = 0;
        while i < frame.len() && ws(frame[i]) {
            i += 1;
        }
        if i + 4 > frame.len() || &frame[i..i + 4] != b"null" {
            return None;
        }
        i += 4;
        while i < frame.len() && ws(frame[i]) {
            i += 1;
        }
        if i == frame.len() { Some(Null) } else { None }
    }
}

fn recv_u8(conn: &mut ReadConnection<ScriptRead>) -> Got<u8> {
    recv::<u8>(conn)
}

fn recv<M: RefDoc>(conn: &mut ReadConnection<ScriptRead>) -> Got<M> {
    recv_on::<M, ScriptRead>(conn)
}

fn recv_on<M: RefDoc, R: zlink_core::connection::socket::ReadHalf>(conn: &mut ReadConnection<R>) -> Got<M> {
    let r = {
        let fut = conn.verif_read_message::<M>();
        let mut fut = core::pin::pin!(fut);
        poll_once(fut.as_mut())
    };
    match r {
        Poll::Pending => Got::Pending,
        Poll::Ready(Ok(v)) => Got::Val(v),
        Poll::Ready(Err(e)) => {
            let g = match &e {
                zlink_core::Error::Json(_) => Got::DecodeErr,
                zlink_core::Error::UnexpectedEof => Got::Eof,
                _ => Got::Other,
            };
            core::mem::forget(e);
            g
        }
    }
}

/// Two frames `F1 NUL F2 NUL` with F1 = N1 and F2 = N2 arbitrary non-NUL bytes (N1 + N2 ≤ 5),
/// delivered in one read (CUT = 0) or cut into two reads after CUT bytes, then end of stream.
/// Three receives must yield: the verdict on F1, the verdict on F2 — each what the reference
/// says about that frame alone — and end of stream.
pub fn recv_frames<M: RefDoc, const N1: usize, const N2: usize, const CUT: usize>(nd: &mut Nd) {
    let total = N1 + N2 + 2;
    let mut stream = [0u8; CHUNK];
    let mut i = 0;
    while i < N1 + N2 {
        let b = nd.u8();
        nd.assume(b != 0);
        let at = if i < N1 { i } else { i + 1 };
        stream[at] = b;
        i += 1;
    }
    // stream[N1] and stream[N1 + N2 + 1] stay NUL
    let mut steps = [Step::Eof; STEPS];
    let nsteps;
    if CUT == 0 {
        steps[0] = Step::Data { n: total, bytes: stream };
        nsteps = 1;
    } else {
        let mut second = [0u8; CHUNK];
        let mut j = 0;
        while j + CUT < total {
            second[j] = stream[CUT + j];
            j += 1;
        }
        steps[0] = Step::Data { n: CUT, bytes: stream };
        steps[1] = Step::Data { n: total - CUT, bytes: second };
        nsteps = 2;
    }
    crate::sock::set_read_poll_limit(nsteps + 1);
    let mut conn = ReadConnection::verif_from_parts(ScriptRead::new(&steps, nsteps), vec![0u8; STEP], 0, 0, 3);
    let e1 = M::reference(&stream[..N1]);
    let e2 = M::reference(&stream[N1 + 1..N1 + 1 + N2]);
    let want = |e: Option<M>| match e {
        Some(v) => Got::Val(v),
        None => Got::DecodeErr,
    };
    let g1 = recv::<M>(&mut conn);
    assert!(g1 == want(e1), "C01.first_frame_yields_its_own_result");
    let g2 = recv::<M>(&mut conn);
    assert!(g2 == want(e2), "C01.second_frame_unaffected_by_the_first");
    let g3 = recv::<M>(&mut conn);
    assert!(g3 == Got::Eof, "C01.end_of_stream_after_all_frames");
    cover!(nd, e1.is_none() && e2.is_some(), "bad frame followed by a good one");
    if N1 >= 2 {
        cover!(nd, e1.is_some() && stream[N1 - 1] == b' ', "padded frame followed by another");
    }
    core::mem::forget(conn);
}

/// Development probe (not registered for any property): cost of one read step.
pub fn read_probe<const PEND: bool>(nd: &mut Nd) {
    let steps = any_script(nd, 1, PEND);
    let mut sr = ScriptRead::new(&steps, 1);
    sr.cut_after_script = true;
    let mut conn = ReadConnection::verif_from_parts(sr, vec![0x55u8; 8], 0, 0, 3);
    let r = {
        let fut = conn.verif_read_from_socket();
        let mut fut = core::pin::pin!(fut);
        let mut r = poll_once(fut.as_mut());
        if PEND && r.is_pending() {
            r = poll_once(fut.as_mut());
        }
        r
    };
    let (_buf, read_pos, _) = conn.verif_parts();
    let got = match &r {
        Poll::Ready(r) => classify(r),
        Poll::Pending => Outcome::Pending,
    };
    core::mem::forget(r);
    assert!(read_pos <= 8, "X.probe");
    cover!(nd, got == Outcome::Ok, "ok");
    core::mem::forget(conn);
}

/// A buffer of `len` bytes whose capacity already covers every growth step up to the limit (and
/// two more), so that `extend` never reallocates (see `stubs::no_realloc`).
pub fn roomy(len: usize, fill: u8) -> Vec<u8> {
    let mut v = Vec::with_capacity(MAX + 2 * STEP);
    v.resize(len, fill);
    v
}

/// Development probes: which symbolic ingredient keeps the read loop from being bounded in symex.
pub fn read_probe2<const V: usize>(nd: &mut Nd) {
    let mut steps = [Step::Eof; STEPS];
    let mut bytes = [0x41u8; CHUNK];
    let n = match V {
        0 => { bytes[2] = 0; 3 }                       // concrete, frame complete
        1 => 3,                                       // concrete, frame incomplete, then EOF
        2 => { bytes[0] = nd.u8(); bytes[1] = nd.u8(); bytes[2] = nd.u8(); 3 } // symbolic bytes
        _ => nd.range(1, 8),                          // symbolic length, concrete bytes
    };
    steps[0] = Step::Data { n, bytes };
    crate::sock::set_read_poll_limit(2);
    let mut conn = ReadConnection::verif_from_parts(ScriptRead::new(&steps, 1), vec![0x55u8; 8], 0, 0, 3);
    let r = {
        let fut = conn.verif_read_from_socket();
        let mut fut = core::pin::pin!(fut);
        poll_once(fut.as_mut())
    };
    let (_buf, read_pos, _) = conn.verif_parts();
    core::mem::forget(r);
    assert!(read_pos <= 8, "X.probe");
    core::mem::forget(conn);
}

/// Layer 2 from a pre-loaded buffer: two frames `F1 NUL F2 NUL` (arbitrary non-NUL content) already
/// buffered behind one consumed byte, followed by the sentinel NUL — the state layer 1 shows
/// `read_from_socket` leaves behind. Two receives must yield each frame's own verdict, and the
/// cursors must then be reset (everything consumed, nothing else touched).
pub fn recv_buffered<M: RefDoc, const N1: usize, const N2: usize>(nd: &mut Nd) {
    let mut buffer = vec![0u8; 2 * STEP];
    buffer[0] = b'X';
    let mut f1 = [0u8; 8];
    let mut f2 = [0u8; 8];
    let mut i = 0;
    while i < N1 {
        let b = nd.u8();
        nd.assume(b != 0);
        f1[i] = b;
        buffer[1 + i] = b;
        i += 1;
    }
    let mut i = 0;
    while i < N2 {
        let b = nd.u8();
        nd.assume(b != 0);
        f2[i] = b;
        buffer[2 + N1 + i] = b;
        i += 1;
    }
    let read_pos = 1 + N1 + 1 + N2 + 1;
    crate::sock::set_read_poll_limit(1);
    let mut conn = ReadConnection::verif_from_parts(ScriptRead::idle(), buffer, read_pos, 1, 3);
    let e1 = M::reference(&f1[..N1]);
    let e2 = M::reference(&f2[..N2]);
    let want = |e: Option<M>| match e {
        Some(v) => Got::Val(v),
        None => Got::DecodeErr,
    };
    let g1 = recv::<M>(&mut conn);
    assert!(g1 == want(e1), "C01.first_frame_yields_its_own_result");
    {
        let (_, rp, mp) = conn.verif_parts();
        assert!(rp == read_pos && mp == 2 + N1, "C01.a_frame_consumes_exactly_itself");
    }
    let g2 = recv::<M>(&mut conn);
    assert!(g2 == want(e2), "C01.second_frame_unaffected_by_the_first");
    {
        let (_, rp, mp) = conn.verif_parts();
        assert!(rp == 0 && mp == 0, "C01.cursors_reset_after_the_last_buffered_frame");
    }
    assert!(conn.read_half().calls == 0, "C01.buffered_frames_served_before_reading");
    cover!(nd, e1.is_none() && e2.is_some(), "bad frame followed by a good one");
    if N1 >= 2 {
        cover!(nd, e1.is_some() && f1[N1 - 1] == b' ', "padded frame followed by another");
    }
    core::mem::forget(conn);
}

/// Development probes: cost of the depth-2 nest `read_message -> read_from_socket` by decoder.
pub fn rm_probe<const V: usize>(nd: &mut Nd) {
    let mut buffer = vec![0u8; 2 * STEP];
    buffer[0] = b'X';
    buffer[1] = nd.u8();
    buffer[2] = nd.u8();
    nd.assume(buffer[1] != 0 && buffer[2] != 0);
    // X f f 0 0
    crate::sock::set_read_poll_limit(1);
    let mut conn = ReadConnection::verif_from_parts(ScriptRead::idle(), buffer, 4, 1, 3);
    if V == 2 {
        // is a constant first byte still a constant for serde_json's dispatch? (C11 feasibility)
        let mut b2 = vec![0u8; 2 * STEP];
        b2[0] = b'X';
        b2[1] = b'"';
        b2[2] = nd.alnum();
        b2[3] = b'"';
        let mut c2 = ReadConnection::verif_from_parts(ScriptRead::idle(), b2, 5, 1, 3);
        let r = {
            let fut = c2.verif_read_message::<crate::p11::Raw<'_>>();
            let mut fut = core::pin::pin!(fut);
            poll_once(fut.as_mut())
        };
        let ok = matches!(r, Poll::Ready(Ok(_)));
        core::mem::forget(r);
        assert!(ok, "X.raw_ok");
        core::mem::forget(c2);
    } else if V == 0 {
        let r = {
            let fut = conn.verif_read_message::<Skip>();
            let mut fut = core::pin::pin!(fut);
            poll_once(fut.as_mut())
        };
        let ok = matches!(r, Poll::Ready(Ok(_)));
        core::mem::forget(r);
        let (b, rp, mp) = conn.verif_parts();
        let ws = |x: u8| matches!(x, b' ' | b'\t' | b'\n' | b'\r');
        assert!(ok == (ws(b[1]) && ws(b[2])), "X.skip_verdict");
        assert!(rp == 0 && mp == 0, "X.cursors");
    } else {
        let g = recv_u8(&mut conn);
        let (_, rp, mp) = conn.verif_parts();
        assert!(rp == 0 && mp == 0, "X.cursors");
        assert!(g != Got::Pending, "X.ready");
    }
    core::mem::forget(conn);
}

/// Layer 2, one inductive step: a connection whose buffer already holds a complete frame at
/// `msg_pos = MP >= 1` (N1 arbitrary non-NUL bytes, then NUL), followed either by the sentinel
/// (MORE = 0: it is the last buffered frame) or by MORE further arbitrary non-NUL bytes, a NUL and
/// the sentinel (another frame is buffered behind it). One receive must: not touch the transport,
/// yield what the reference says about exactly those N1 bytes, leave every buffered byte intact,
/// and move the cursors exactly past the frame (or reset them after the last frame).
pub fn recv_step<M: RefDoc, const MP: usize, const N1: usize, const MORE: usize>(nd: &mut Nd) {
    let read_pos = if MORE == 0 { MP + N1 + 1 } else { MP + N1 + 1 + MORE + 1 };
    // smallest whole number of growth steps that holds the data and the sentinel
    let len = (read_pos + 1 + STEP - 1) / STEP * STEP;
    let mut buffer = vec![0u8; len];
    let mut i = 0;
    while i < MP {
        buffer[i] = b'X';       // consumed earlier (anything but a cursor-relevant byte pattern)
        i += 1;
    }
    buffer[MP - 1] = 0;         // terminator of the previously consumed frame
    let mut f1 = [0u8; 8];
    let mut i = 0;
    while i < N1 {
        let b = nd.u8();
        nd.assume(b != 0);
        f1[i] = b;
        buffer[MP + i] = b;
        i += 1;
    }
    let mut i = 0;
    while i < MORE {
        let b = nd.u8();
        nd.assume(b != 0);
        buffer[MP + N1 + 1 + i] = b;
        i += 1;
    }
    let mut before = [0u8; 24];
    before[..len].copy_from_slice(&buffer[..len]);
    crate::sock::set_read_poll_limit(1);
    let mut conn = ReadConnection::verif_from_parts(ScriptRead::idle(), buffer, read_pos, MP, 3);
    let e1 = M::reference(&f1[..N1]);
    let g1 = recv::<M>(&mut conn);
    let want = match e1 {
        Some(v) => Got::Val(v),
        None => Got::DecodeErr,
    };
    assert!(g1 == want, "C01.first_frame_yields_its_own_result");
    {
        let (buf, rp, mp) = conn.verif_parts();
        if MORE == 0 {
            assert!(rp == 0 && mp == 0, "C01.cursors_reset_after_the_last_buffered_frame");
        } else {
            assert!(rp == read_pos && mp == MP + N1 + 1, "C01.a_frame_consumes_exactly_itself");
        }
        assert!(buf.len() == len, "C01.buffer_size_unchanged_by_a_buffered_receive");
        let mut same = true;
        let mut k = 0;
        while k < len {
            if buf[k] != before[k] {
                same = false;
            }
            k += 1;
        }
        assert!(same, "C01.buffered_bytes_intact");
    }
    assert!(conn.read_half().calls == 0, "C01.buffered_frames_served_before_reading");
    cover!(nd, e1.is_none(), "frame that fails to decode");
    cover!(nd, e1.is_some(), "frame that decodes");
    core::mem::forget(conn);
}

/// Layers 1 and 2 in one call: a fresh connection (nothing buffered) whose transport delivers, in
/// one read, a frame of N1 arbitrary non-NUL bytes and its NUL, optionally followed by MORE further
/// non-NUL bytes and a NUL (a second frame in the same burst). One receive yields the first
/// frame's own verdict and leaves the cursors exactly past it (or reset when nothing else is
/// buffered).
pub fn recv_fresh<M: RefDoc, const N1: usize, const MORE: usize>(nd: &mut Nd) {
    let total = if MORE == 0 { N1 + 1 } else { N1 + 1 + MORE + 1 };
    let mut stream = [0u8; CHUNK];
    let mut i = 0;
    while i < N1 {
        let b = nd.u8();
        nd.assume(b != 0);
        stream[i] = b;
        i += 1;
    }
    let mut i = 0;
    while i < MORE {
        let b = nd.u8();
        nd.assume(b != 0);
        stream[N1 + 1 + i] = b;
        i += 1;
    }
    crate::sock::set_read_poll_limit(1);
    let sock = crate::sock::BurstRead { bytes: &stream, n: total, reads: 0, calls: 0 };
    let mut conn = ReadConnection::verif_from_parts(sock, vec![0x55u8; STEP], 0, 0, 3);
    let e1 = M::reference(&stream[..N1]);
    let g1 = recv_on::<M, _>(&mut conn);
    let want = match e1 {
        Some(v) => Got::Val(v),
        None => Got::DecodeErr,
    };
    assert!(g1 == want, "C01.first_frame_yields_its_own_result");
    let (buf, rp, mp) = conn.verif_parts();
    if MORE == 0 {
        assert!(rp == 0 && mp == 0, "C01.cursors_reset_after_the_last_buffered_frame");
    } else {
        assert!(rp == total && mp == N1 + 1, "C01.a_frame_consumes_exactly_itself");
    }
    let mut same = true;
    let mut k = 0;
    while k < total {
        if buf[k] != stream[k] {
            same = false;
        }
        k += 1;
    }
    assert!(same, "C01.buffered_bytes_intact");
    assert!(conn.read_half().reads == 1, "C01.one_transport_read_for_a_complete_burst");
    cover!(nd, e1.is_none(), "frame that fails to decode");
    cover!(nd, e1.is_some(), "frame that decodes");
    core::mem::forget(conn);
}

/// A receive that resumes after an abandoned one (C07 at the level of `read_message`): RP bytes
/// are already buffered with `msg_pos == 0` - arbitrary bytes, possibly containing complete frames,
/// the last one not NUL (the state the transport half is shown to leave behind when a receive is
/// dropped while the read is pending). The transport then delivers N more arbitrary bytes ending
/// in NUL. The receive must take those bytes in, yield the verdict of the *first* frame of the
/// concatenation (bytes up to the first NUL) and put the message cursor right behind it.
pub fn recv_resume<M: RefDoc, const RP: usize, const N: usize>(nd: &mut Nd) {
    let mut all = [0u8; 2 * CHUNK];
    let mut i = 0;
    while i < RP + N {
        all[i] = nd.u8();
        i += 1;
    }
    nd.assume(all[RP - 1] != 0);
    nd.assume(all[RP + N - 1] == 0);
    nd.assume(all[0] != 0);                 // frames are non-empty
    let mut chunk = [0u8; CHUNK];
    let mut i = 0;
    while i < N {
        chunk[i] = all[RP + i];
        i += 1;
    }
    let total = RP + N;
    let len = (total + 1 + STEP - 1) / STEP * STEP;
    let start_len = (RP + 1 + STEP - 1) / STEP * STEP;
    let mut buffer = vec![0x55u8; start_len];
    let mut i = 0;
    while i < RP {
        buffer[i] = all[i];
        i += 1;
    }
    buffer[RP] = 0; // sentinel planted by the abandoned receive
    // (the burst fits the space offered: the one-burst transport model does not keep a remainder)
    assert!(N <= start_len - RP, "harness instance: burst must fit the free space");
    crate::sock::set_read_poll_limit(1);
    let sock = crate::sock::BurstRead { bytes: &chunk, n: N, reads: 0, calls: 0 };
    let mut conn = ReadConnection::verif_from_parts(sock, buffer, RP, 0, 3);
    // first NUL of the concatenation
    let mut first = total;
    let mut k = 2 * CHUNK;
    while k > 0 {
        k -= 1;
        if k < total && all[k] == 0 {
            first = k;
        }
    }
    let e1 = M::reference(&all[..first]);
    let g1 = recv_on::<M, _>(&mut conn);
    let want = match e1 {
        Some(v) => Got::Val(v),
        None => Got::DecodeErr,
    };
    assert!(g1 == want, "C07.resumed_receive_yields_the_first_complete_frame");
    let (buf, rp, mp) = conn.verif_parts();
    assert!(buf.len() == len || buf.len() == start_len, "C01.buffer_grows_by_whole_steps");
    // Empty frames (two adjacent NULs) would be read as the end-of-data sentinel; the property speaks
    // of non-empty frames only.
    if first + 1 == total {
        assert!(rp == 0 && mp == 0, "C01.cursors_reset_after_the_last_buffered_frame");
    } else if all[first + 1] != 0 {
        assert!(rp == total && mp == first + 1, "C07.nothing_taken_in_before_the_drop_is_lost");
    }
    assert!(conn.read_half().reads == 1, "C07.resumed_receive_reads_the_rest_of_the_burst");
    cover!(nd, first < RP, "a complete frame was already buffered when the receive was abandoned");
    cover!(nd, first + 1 == total, "the abandoned receive held only part of one frame");
    core::mem::forget(conn);
}
