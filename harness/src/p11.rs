//! C11 — data borrowed from a received reply is never overwritten, moved or freed while it is
//! still usable.
//!
//! The anchored mechanism is exercised as it is: the **real** `ReplyStream` (with its unchecked
//! lifetime extension of the connection borrow) drives the **real** `read_message` /
//! `read_from_socket` (cursor reset after the last buffered frame, growth of the receive buffer).
//! What is replaced is the decoder: the stream's receive function decodes each frame as one JSON
//! string borrowed from the buffer (`Raw<'c>`, through serde_json's zero-copy string path)
//! instead of `receive_reply`'s three-way untagged decode, which needs serde's `Content`
//! buffering and does not fit the solver (DESIGN 12). The borrow that matters — `&'c [u8]` into
//! the connection's buffer handed out while the stream keeps the connection — is the same.

use crate::{cover, sock::CHUNK, Nd};
use core::{
    future::Future,
    pin::Pin,
    task::{Context, Poll},
};
use futures_util::stream::Stream;
use serde::Deserialize;
use zlink_core::{
    connection::{chain::ReplyStream, socket::ReadHalf, verif::BUFFER_SIZE as STEP, ReadConnection},
    reply, Reply,
};

/// The content of one JSON string, borrowed from the input.
#[derive(Debug)]
pub struct Raw<'a>(pub &'a [u8]);

impl<'de> Deserialize<'de> for Raw<'de> {
    fn deserialize<D: serde::Deserializer<'de>>(d: D) -> Result<Self, D::Error> {
        struct V;
        impl<'de> serde::de::Visitor<'de> for V {
            type Value = Raw<'de>;
            fn expecting(&self, f: &mut core::fmt::Formatter<'_>) -> core::fmt::Result {
                f.write_str("a string borrowed from the input")
            }
            fn visit_borrowed_bytes<E>(self, v: &'de [u8]) -> Result<Raw<'de>, E> {
                Ok(Raw(v))
            }
            fn visit_borrowed_str<E>(self, v: &'de str) -> Result<Raw<'de>, E> {
                Ok(Raw(v.as_bytes()))
            }
        }
        d.deserialize_bytes(V)
    }
}

#[derive(Debug, Deserialize)]
pub struct NoErr {}

/// Read half delivering up to three bursts (concrete lengths, content behind a pointer), then
/// staying pending for ever (the peer sends nothing more).
#[derive(Debug)]
pub struct Bursts {
    pub data: *const [[u8; CHUNK]; 3],
    pub lens: [usize; 3],
    pub reads: usize,
    pub calls: usize,
}

pub struct BurstsFut<'a, 'b> {
    s: &'a mut Bursts,
    buf: &'b mut [u8],
}

impl Future for BurstsFut<'_, '_> {
    type Output = zlink_core::Result<usize>;
    fn poll(self: Pin<&mut Self>, _cx: &mut Context<'_>) -> Poll<Self::Output> {
        let this = self.get_mut();
        unsafe {
            crate::sock::READ_POLLS += 1;
            if crate::sock::READ_POLLS > crate::sock::READ_POLL_LIMIT {
                crate::nd::cut_path();
            }
        }
        let k = this.s.reads;
        if k >= 3 || this.s.lens[k] == 0 {
            return Poll::Pending;
        }
        this.s.reads += 1;
        let n = this.s.lens[k];
        let space = this.buf.len();
        let put = if n < space { n } else { space };
        let mut i = 0;
        while i < CHUNK {
            if i < put {
                this.buf[i] = unsafe { (*this.s.data)[k][i] };
            }
            i += 1;
        }
        Poll::Ready(Ok(put))
    }
}

impl ReadHalf for Bursts {
    fn read<'s, 'b>(&'s mut self, buf: &'b mut [u8]) -> impl Future<Output = zlink_core::Result<usize>> + use<'s, 'b> {
        self.calls += 1;
        BurstsFut { s: self, buf }
    }
}

/// Adapter (a hand-written future, not an `async` block): the frame decoded as `Raw` becomes a
/// successful reply carrying it.
pub struct AsReply<F> {
    inner: F,
}

impl<'c, F: Future<Output = zlink_core::Result<Raw<'c>>>> Future for AsReply<F> {
    type Output = zlink_core::Result<reply::Result<Raw<'c>, NoErr>>;
    fn poll(self: Pin<&mut Self>, cx: &mut Context<'_>) -> Poll<Self::Output> {
        let inner = unsafe { self.map_unchecked_mut(|s| &mut s.inner) };
        match inner.poll(cx) {
            Poll::Pending => Poll::Pending,
            Poll::Ready(Ok(raw)) => Poll::Ready(Ok(Ok(Reply::new(Some(raw))))),
            Poll::Ready(Err(e)) => Poll::Ready(Err(e)),
        }
    }
}

fn receive_raw<'c>(
    conn: &'c mut ReadConnection<Bursts>,
) -> AsReply<impl Future<Output = zlink_core::Result<Raw<'c>>> + 'c> {
    AsReply { inner: conn.verif_read_message::<Raw<'c>>() }
}

fn next_item<'c, S>(stream: Pin<&mut S>) -> Option<&'c [u8]>
where
    S: Stream<Item = zlink_core::Result<reply::Result<Raw<'c>, NoErr>>>,
{
    let mut cx = Context::from_waker(core::task::Waker::noop());
    crate::sock::begin_poll();
    match stream.poll_next(&mut cx) {
        Poll::Ready(Some(Ok(Ok(rep)))) => rep.into_parameters().map(|r| r.0),
        Poll::Ready(Some(other)) => {
            core::mem::forget(other);
            None
        }
        _ => None,
    }
}

/// Frames are `"<c>"` NUL (4 bytes) with one symbolic payload byte `c` each (a letter or digit).
/// SCEN selects how the peer's bytes arrive:
///   0: both replies in one read (8 bytes: the read fills the one-step buffer exactly);
///   1: each reply in its own read (the first reply is the last buffered frame when the second
///      is asked for: the cursors have been reset);
///   2: first reply alone, second reply in two pieces `"` + `<c>" NUL` (no growth);
///   3: first reply, then a second reply of 12 bytes (`"<c>aaaaaaaaa"` NUL) in two reads of 8 and
///      4 bytes: the buffer has to grow while the first item is held;
///   4: three replies, the first two in one read, the third in its own read.
/// After each later item has been obtained every earlier item must still (a) have the content
/// it had when it was returned and (b) lie where it lay, inside the connection's current buffer
/// (not moved, not freed).
pub fn borrow_across_items<const SCEN: usize>(nd: &mut Nd) {
    let c1 = nd.alnum();
    let c2 = nd.alnum();
    let c3 = nd.alnum();
    let mut data = [[0u8; CHUNK]; 3];
    let mut lens = [0usize; 3];
    let nitems;
    // (element-wise stores: a block copy of an array that holds a symbolic byte would make the
    // solver see the constant quotes around it as symbolic too, and serde_json's dispatch on the
    // first byte would then drag its number parser into the formula)
    const Q: u8 = b'"';
    match SCEN {
        0 => {
            data[0][0] = Q; data[0][1] = c1; data[0][2] = Q; data[0][3] = 0;
            data[0][4] = Q; data[0][5] = c2; data[0][6] = Q; data[0][7] = 0;
            lens[0] = 8;
            nitems = 2;
        }
        1 => {
            data[0][0] = Q; data[0][1] = c1; data[0][2] = Q; data[0][3] = 0;
            data[1][0] = Q; data[1][1] = c2; data[1][2] = Q; data[1][3] = 0;
            lens[0] = 4;
            lens[1] = 4;
            nitems = 2;
        }
        2 => {
            data[0][0] = Q; data[0][1] = c1; data[0][2] = Q; data[0][3] = 0;
            data[1][0] = Q;
            data[2][0] = c2; data[2][1] = Q; data[2][2] = 0;
            lens[0] = 4;
            lens[1] = 1;
            lens[2] = 3;
            nitems = 2;
        }
        3 => {
            data[0][0] = Q; data[0][1] = c1; data[0][2] = Q; data[0][3] = 0;
            data[1][0] = Q; data[1][1] = c2;
            let mut i = 2;
            while i < 8 {
                data[1][i] = b'a';
                i += 1;
            }
            data[2][0] = b'a'; data[2][1] = b'a'; data[2][2] = Q; data[2][3] = 0;
            lens[0] = 4;
            lens[1] = 8;
            lens[2] = 4;
            nitems = 2;
        }
        _ => {
            data[0][0] = Q; data[0][1] = c1; data[0][2] = Q; data[0][3] = 0;
            data[0][4] = Q; data[0][5] = c2; data[0][6] = Q; data[0][7] = 0;
            data[1][0] = Q; data[1][1] = c3; data[1][2] = Q; data[1][3] = 0;
            lens[0] = 8;
            lens[1] = 4;
            nitems = 3;
        }
    }
    crate::sock::set_read_poll_limit(3);
    let sock = Bursts { data: &data, lens, reads: 0, calls: 0 };
    let mut rc = ReadConnection::verif_from_parts(sock, vec![0x55u8; STEP], 0, 0, 3);
    let rcp: *const ReadConnection<Bursts> = &rc;
    // where the connection's buffer is now / whether `p` is its byte number `off`
    let at = |off: usize, p: *const u8| -> bool {
        let (buf, _, _) = unsafe { (*rcp).verif_parts() };
        off < buf.len() && core::ptr::eq(p, unsafe { buf.as_ptr().add(off) })
    };
    {
        let stream = ReplyStream::new(&mut rc, receive_raw, nitems);
        let mut stream = core::pin::pin!(stream);
        let i1 = match next_item(stream.as_mut()) {
            Some(s) => s,
            None => panic!("C11.first_reply_is_delivered"),
        };
        assert!(i1.len() == 1 && i1[0] == c1, "C11.item_has_the_content_that_was_sent");
        let p1 = i1.as_ptr();
        assert!(at(1, p1), "C11.item_borrows_from_the_receive_buffer");
        let i2 = match next_item(stream.as_mut()) {
            Some(s) => s,
            None => panic!("C11.second_reply_is_delivered"),
        };
        assert!(i2.len() >= 1 && i2[0] == c2, "C11.item_has_the_content_that_was_sent");
        // the first item, re-read after the second has been obtained
        match SCEN {
            1 | 2 => {
                assert!(i1[0] == c1, "C11.earlier_item_keeps_its_content[next reply read after cursor reset]");
                assert!(at(1, p1), "C11.earlier_item_not_moved_or_freed");
            }
            3 => {
                assert!(i1[0] == c1, "C11.earlier_item_keeps_its_content[next reply read after cursor reset]");
                // Solver only: in Kani's allocator model a reallocation always moves the object;
                // natively growing 8 to 16 bytes may extend in place, so this part has no native
                // replay (with production-size buffers the reallocation does move).
                #[cfg(kani)]
                assert!(at(1, p1), "C11.earlier_item_not_moved_or_freed[buffer grown for the next reply]");
            }
            _ => {
                assert!(at(1, p1), "C11.earlier_item_not_moved_or_freed");
                assert!(i1[0] == c1, "C11.earlier_item_keeps_its_content");
            }
        }
        if SCEN == 4 {
            let p2 = i2.as_ptr();
            assert!(at(5, p2), "C11.item_borrows_from_the_receive_buffer");
            let i3 = match next_item(stream.as_mut()) {
                Some(s) => s,
                None => panic!("C11.third_reply_is_delivered"),
            };
            assert!(i3.len() == 1 && i3[0] == c3, "C11.item_has_the_content_that_was_sent");
            assert!(at(1, p1) && at(5, p2), "C11.earlier_item_not_moved_or_freed");
            assert!(i1[0] == c1, "C11.earlier_item_keeps_its_content[next reply read after cursor reset]");
            assert!(i2[0] == c2, "C11.earlier_item_keeps_its_content");
        }
        cover!(nd, c1 != c2, "distinct payloads");
    }
    core::mem::forget(rc);
}
