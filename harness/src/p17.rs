//! C17 — buffers are bounded (inbound, multi-read form; the outbound form is asserted by the C02
//! bodies in p02.rs, the one-step inbound form by p01.rs).

use crate::{cover, exec::poll_once, Nd};
use core::task::Poll;
use zlink_core::connection::{
    socket::ReadHalf,
    verif::{BUFFER_SIZE as STEP, MAX_BUFFER_SIZE as MAX},
    ReadConnection,
};

/// A peer that sends one frame of `term_at` bytes (the last one is the NUL terminator), or an
/// endless run of non-NUL bytes when `term_at == 0`, in chunks of at most `chunk` bytes.
#[derive(Debug)]
pub struct FrameSource {
    pub chunk: usize,
    pub term_at: usize,
    pub sent: usize,
    pub reads: usize,
    pub max_reads: usize,
    pub max_space_seen: usize,
}

pub struct FrameFut<'a, 'b> {
    s: &'a mut FrameSource,
    buf: &'b mut [u8],
}

impl core::future::Future for FrameFut<'_, '_> {
    type Output = zlink_core::Result<usize>;
    fn poll(self: core::pin::Pin<&mut Self>, _cx: &mut core::task::Context<'_>) -> Poll<Self::Output> {
        let this = self.get_mut();
        let (s, buf) = (&mut *this.s, &mut *this.buf);
        s.reads += 1;
        if s.reads > s.max_reads {
            // bound of the harness: see `sock::READ_POLL_LIMIT`
            crate::nd::cut_path();
        }
        if buf.len() > s.max_space_seen {
            s.max_space_seen = buf.len();
        }
        if s.term_at != 0 && s.sent >= s.term_at {
            return Poll::Ready(Ok(0)); // frame fully sent, peer closed
        }
        let mut put = 0;
        let mut i = 0;
        while i < 8 {
            let more = s.term_at == 0 || s.sent < s.term_at;
            if i < s.chunk && i < buf.len() && more {
                let last = s.term_at != 0 && s.sent + 1 == s.term_at;
                buf[i] = if last { 0 } else { 0x41 };
                s.sent += 1;
                put += 1;
            }
            i += 1;
        }
        Poll::Ready(Ok(put))
    }
}

impl ReadHalf for FrameSource {
    fn read<'s, 'b>(&'s mut self, buf: &'b mut [u8]) -> impl core::future::Future<Output = zlink_core::Result<usize>> + use<'s, 'b> {
        FrameFut { s: self, buf }
    }
}

/// From the initial state: a frame whose size (terminator included) is symbolic in
/// 1..=MAX+2·STEP, or never terminated, arriving in chunks of CH bytes.
pub fn limit_in<const CH: usize>(nd: &mut Nd) {
    let never = nd.bool();
    let p = if never { 0 } else { nd.range(1, MAX + 2 * STEP) };
    let src = FrameSource {
        chunk: CH,
        term_at: p,
        sent: 0,
        reads: 0,
        max_reads: 2 * ((MAX + CH - 1) / CH) + 2,
        max_space_seen: 0,
    };
    let mut conn = ReadConnection::verif_from_parts(src, vec![0x55u8; STEP], 0, 0, 5);
    let r = {
        let fut = conn.verif_read_from_socket();
        let mut fut = core::pin::pin!(fut);
        poll_once(fut.as_mut())
    };
    let r = match r {
        Poll::Ready(r) => r,
        Poll::Pending => panic!("C17.source_never_pends"),
    };
    let (buf, read_pos, _) = conn.verif_parts();
    assert!(buf.len() <= MAX, "C17.in_buffer_stays_within_limit");
    assert!(conn.read_half().max_space_seen <= MAX, "C17.in_buffer_stays_within_limit");
    let accepted = !never && p < MAX;
    match r {
        Ok(()) => {
            assert!(accepted, "C17.in_oversized_or_unterminated_frame_is_refused");
            assert!(read_pos == p, "C17.in_accepted_frame_is_complete");
            let mut i = 0;
            while i < MAX {
                if i + 1 < p {
                    assert!(buf[i] == 0x41, "C17.in_accepted_frame_is_complete");
                }
                i += 1;
            }
            assert!(buf[p - 1] == 0, "C17.in_accepted_frame_is_complete");
        }
        Err(e) => {
            let overflow = matches!(e, zlink_core::Error::BufferOverflow);
            core::mem::forget(e);
            assert!(overflow, "C17.in_refusal_is_buffer_overflow");
            assert!(!accepted, "C17.in_frame_smaller_than_limit_is_accepted");
            // Refused as soon as the limit is reached: nothing beyond MAX bytes was requested.
            assert!(conn.read_half().sent <= MAX, "C17.in_refused_once_limit_is_reached");
        }
    }
    cover!(nd, accepted && p == MAX - 1, "largest accepted frame");
    cover!(nd, accepted && p == STEP, "frame of exactly one growth step");
    cover!(nd, accepted && p == 2 * STEP + 1, "frame one byte over a growth step");
    cover!(nd, !never && p == MAX, "frame of exactly the limit is refused");
    cover!(nd, never, "unterminated stream");
    core::mem::forget(conn);
}

/// Relations between the production constants that the small build shares and on which the
/// "never exceeds MAX" argument relies (checked on the production-constant build).
pub fn limit_constants(_nd: &mut Nd) {
    assert!(STEP >= 2, "C17.constants_step_at_least_two");
    assert!(MAX % STEP == 0, "C17.constants_limit_is_multiple_of_step");
    assert!(MAX >= 2 * STEP, "C17.constants_limit_at_least_two_steps");
}
