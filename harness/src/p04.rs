//! C04 — a reply carrying an `error` member is never reported as a success. End-to-end through
//! the real `ReadConnection::receive_reply` (the three-way untagged decode is local to it) on
//! frames that are already in the receive buffer.

use crate::{cover, exec::poll_once, sock::ScriptRead, Nd};
use core::task::Poll;
use serde::Deserialize;
use zlink_core::{connection::ReadConnection, ReplyError};

#[derive(Debug, Deserialize, PartialEq, Clone, Copy)]
pub struct Out {
    pub n: u32,
}

#[derive(Debug, PartialEq, ReplyError)]
#[zlink(interface = "org.ex", crate = "zlink_core")]
pub enum PErr {
    Gone,
    Code { code: u32 },
}

/// Build a connection whose buffer already holds `frame` (NUL-terminated, followed by the
/// sentinel NUL) behind one consumed byte, so that no transport read happens.
fn conn_with(frame: &[u8]) -> ReadConnection<ScriptRead> {
    let mut buffer = vec![0u8; 256];
    buffer[0] = b'X';
    let mut i = 0;
    while i < frame.len() {
        buffer[1 + i] = frame[i];
        i += 1;
    }
    // frame includes its NUL; the sentinel after it is already 0
    ReadConnection::verif_from_parts(ScriptRead::idle(), buffer, 1 + frame.len(), 1, 9)
}

pub fn probe_concrete(nd: &mut Nd) {
    let mut c = conn_with(b"{\"parameters\":{\"n\":7}}\0");
    let r = {
        let f = c.receive_reply::<Out, PErr>();
        let mut f = core::pin::pin!(f);
        poll_once(f.as_mut())
    };
    match r {
        Poll::Ready(Ok(Ok(rep))) => {
            assert!(rep.parameters() == Some(&Out { n: 7 }), "C04.success_reply_decodes");
        }
        Poll::Ready(other) => {
            core::mem::forget(other);
            panic!("C04.success_reply_decodes");
        }
        Poll::Pending => panic!("C04.no_read_needed"),
    }
    cover!(nd, true, "reached");
    core::mem::forget(c);
}
