//! Minimal poll-level driver for the crate's `async fn`s.

use core::{
    future::Future,
    pin::Pin,
    task::{Context, Poll, Waker},
};

/// Poll a pinned future once with a no-op waker.
pub fn poll_once<F: Future + ?Sized>(fut: Pin<&mut F>) -> Poll<F::Output> {
    // The transport poll budget is per harness-level poll (see `sock::READ_POLL_LIMIT`): resetting
    // it here, unconditionally, keeps the counter a constant for symbolic execution even after
    // paths with different histories have been merged.
    crate::sock::begin_poll();
    let mut cx = Context::from_waker(Waker::noop());
    fut.poll(&mut cx)
}

/// Poll a future up to `max` times; `None` if it is still pending.
pub fn run_bounded<F: Future>(fut: F, max: usize) -> Option<F::Output> {
    let mut fut = core::pin::pin!(fut);
    let mut i = 0;
    while i < max {
        if let Poll::Ready(v) = poll_once(fut.as_mut()) {
            return Some(v);
        }
        i += 1;
    }
    None
}
