//! Short reference models of compact JSON encoding, written from RFC 8259 / serde_json's
//! documented behaviour, without allocation and with fixed-size outputs.

/// Reference JSON string escaping of one ASCII byte (< 0x80) as serde_json's compact formatter
/// does it. Returns (bytes, len), len ∈ {1, 2, 6}.
pub fn escape_ascii(b: u8) -> ([u8; 6], usize) {
    const HEX: &[u8; 16] = b"0123456789abcdef";
    match b {
        b'"' => (*b"\\\"\0\0\0\0", 2),
        b'\\' => (*b"\\\\\0\0\0\0", 2),
        0x08 => (*b"\\b\0\0\0\0", 2),
        0x0c => (*b"\\f\0\0\0\0", 2),
        b'\n' => (*b"\\n\0\0\0\0", 2),
        b'\r' => (*b"\\r\0\0\0\0", 2),
        b'\t' => (*b"\\t\0\0\0\0", 2),
        0..=0x1f => (
            [b'\\', b'u', b'0', b'0', HEX[(b >> 4) as usize], HEX[(b & 0xf) as usize]],
            6,
        ),
        _ => ([b, 0, 0, 0, 0, 0], 1),
    }
}

/// Fixed-capacity byte string builder.
#[derive(Clone, Copy)]
pub struct Doc<const N: usize> {
    pub b: [u8; N],
    pub n: usize,
}

impl<const N: usize> Doc<N> {
    pub fn new() -> Self {
        Doc { b: [0; N], n: 0 }
    }
    pub fn push(&mut self, c: u8) {
        self.b[self.n] = c;
        self.n += 1;
    }
    pub fn lit(&mut self, s: &[u8]) {
        let mut i = 0;
        while i < s.len() {
            self.push(s[i]);
            i += 1;
        }
    }
    /// `"..."` with every byte of `s[..len]` (ASCII) escaped.
    pub fn json_str(&mut self, s: &[u8], len: usize) {
        self.push(b'"');
        let mut i = 0;
        while i < s.len() {
            if i < len {
                let (e, k) = escape_ascii(s[i]);
                let mut j = 0;
                while j < 6 {
                    if j < k {
                        self.push(e[j]);
                    }
                    j += 1;
                }
            }
            i += 1;
        }
        self.push(b'"');
    }
}
