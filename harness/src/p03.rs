//! C03 — the built-in JSON serializer is byte-identical to serde_json's compact output.
//!
//! Differential harnesses: the real `zlink_core::json_ser::to_slice` (through the `verif::to_slice`
//! forwarder) against the real `serde_json::to_writer` writing into a fixed slice, on the same
//! symbolic value, for every buffer capacity `0..=N`.

use crate::{cover, Nd};
use serde::{
    ser::{SerializeMap, Serializer},
    Serialize,
};
use zlink_core::verif::{to_slice, JsonSerError};

/// The comparison every harness ends with. `N` bounds the reference encoding's length.
fn diff<T: Serialize + ?Sized, const N: usize>(nd: &mut Nd, v: &T) -> usize {
    let cap = nd.below(N + 1);
    let mut zb = [0xEEu8; N];
    let zr = to_slice(v, &mut zb[..cap]);
    let mut rb = [0u8; N];
    let ref_len = {
        let mut w: &mut [u8] = &mut rb[..];
        let rr = serde_json::to_writer(&mut w, v);
        let ok = rr.is_ok();
        core::mem::forget(rr);
        assert!(ok, "C03.reference_encoder_fits_harness_buffer");
        N - w.len()
    };
    match zr {
        Ok(n) => {
            assert!(n <= cap, "C03.never_writes_past_the_offered_space");
            assert!(n == ref_len, "C03.same_length_as_serde_json");
            let mut i = 0;
            while i < N {
                if i < n {
                    assert!(zb[i] == rb[i], "C03.same_bytes_as_serde_json");
                    assert!(zb[i] >= 0x20, "C03.no_raw_control_character_or_nul");
                }
                i += 1;
            }
        }
        Err(JsonSerError::BufferTooSmall) => {
            assert!(cap < ref_len, "C03.buffer_too_small_only_when_it_is");
        }
        Err(JsonSerError::KeyMustBeAString) => {
            panic!("C03.serializable_value_is_not_refused");
        }
    }
    // Bytes behind the offered space are never touched.
    let mut i = 0;
    while i < N {
        if i >= cap {
            assert!(zb[i] == 0xEE, "C03.never_writes_past_the_offered_space");
        }
        i += 1;
    }
    cover!(nd, cap == ref_len, "buffer exactly as large as the document");
    cover!(nd, cap + 1 == ref_len, "buffer one byte short");
    ref_len
}

// ------------------------------------------------------------------------------------ strings

/// Every Unicode scalar as a `char` value.
pub fn ser_char_value(nd: &mut Nd) {
    let c = nd.char();
    let n = diff::<char, 8>(nd, &c);
    cover!(nd, n == 8, "control character escaped as \\u00XX");
    cover!(nd, n == 6, "four-byte UTF-8 scalar");
}

/// Every Unicode scalar as a one-character `&str`.
pub fn ser_char_str(nd: &mut Nd) {
    let c = nd.char();
    let mut b = [0u8; 4];
    let s: &str = c.encode_utf8(&mut b);
    let n = diff::<str, 8>(nd, s);
    cover!(nd, n == 4, "two-byte escape or two-byte UTF-8");
}

#[derive(Debug)]
pub struct Map1<K, V>(pub K, pub V, pub bool);
impl<K: Serialize, V: Serialize> Serialize for Map1<K, V> {
    fn serialize<S: Serializer>(&self, s: S) -> Result<S::Ok, S::Error> {
        let mut m = s.serialize_map(if self.2 { Some(1) } else { None })?;
        m.serialize_entry(&self.0, &self.1)?;
        m.end()
    }
}

/// Every Unicode scalar as a map key (`{"<c>":true}`).
pub fn ser_char_key(nd: &mut Nd) {
    let c = nd.char();
    let m = Map1(c, true, nd.bool());
    diff::<_, 16>(nd, &m);
}

/// All strings of K ASCII bytes (every adjacency of escaped / unescaped bytes, run boundaries).
pub fn ser_ascii<const K: usize>(nd: &mut Nd) {
    let mut b = [0u8; K];
    let mut i = 0;
    while i < K {
        b[i] = nd.ascii();
        i += 1;
    }
    let s = crate::nd::str_of(&b);
    match K {
        1 => {
            diff::<str, 8>(nd, s);
        }
        2 => {
            let n = diff::<str, 14>(nd, s);
            cover!(nd, n == 9, "escape next to a plain byte");
        }
        _ => {
            diff::<str, 20>(nd, s);
        }
    }
}

/// A non-ASCII scalar of UTF-8 length L (every scalar of that length class) directly followed by
/// an arbitrary ASCII byte, and the same preceded by one: escapes next to multi-byte sequences.
/// The length class is fixed by the instance so that the second character has a concrete offset (R1).
pub fn ser_nonascii_ascii<const L: usize, const ASCII_FIRST: bool>(nd: &mut Nd) {
    let v = match L {
        2 => nd.u32_in(0x80, 0x7FF),
        3 => nd.u32_in(0x800, 0xFFFF),
        _ => nd.u32_in(0x10000, 0x10FFFF),
    };
    nd.assume(!(v >= 0xD800 && v <= 0xDFFF));
    let c = match char::from_u32(v) {
        Some(c) => c,
        None => {
            nd.assume(false);
            'x'
        }
    };
    let a = nd.ascii();
    let mut b = [0u8; 5];
    if ASCII_FIRST {
        b[0] = a;
        c.encode_utf8(&mut b[1..]);
    } else {
        c.encode_utf8(&mut b[..4]);
        b[L] = a;
    }
    let s = crate::nd::str_of(&b[..L + 1]);
    let n = diff::<str, 12>(nd, s);
    cover!(nd, n == 2 + L + 2, "two-byte escape next to the multi-byte scalar");
}

/// A string of two arbitrary scalars (multi-byte runs around escapes), length symbolic 0..=2.
pub fn ser_str2(nd: &mut Nd) {
    let n = nd.below(3);
    let (c0, c1) = (nd.char(), nd.char());
    let mut b = [0u8; 8];
    let mut len = 0;
    if n >= 1 {
        len += c0.encode_utf8(&mut b[len..]).len();
    }
    if n >= 2 {
        len += c1.encode_utf8(&mut b[len..]).len();
    }
    let s = crate::nd::str_of(&b[..len]);
    diff::<str, 14>(nd, s);
}

// ------------------------------------------------------------------------------------ numbers

macro_rules! int_harness {
    ($name:ident, $keyname:ident, $t:ty, $draw:ident, $n:literal) => {
        /// Every value of the type as a JSON number.
        pub fn $name(nd: &mut Nd) {
            let v = nd.$draw() as $t;
            diff::<$t, $n>(nd, &v);
        }
        /// Every value of the type as a (quoted) map key.
        pub fn $keyname(nd: &mut Nd) {
            let v = nd.$draw() as $t;
            let m = Map1(v, false, nd.bool());
            diff::<_, { $n + 10 }>(nd, &m);
        }
    };
}
int_harness!(ser_int_u8, ser_key_u8, u8, u8, 4);
int_harness!(ser_int_i8, ser_key_i8, i8, u8, 4);
int_harness!(ser_int_u16, ser_key_u16, u16, u16, 6);
int_harness!(ser_int_i16, ser_key_i16, i16, u16, 6);
int_harness!(ser_int_u32, ser_key_u32, u32, u32, 10);
int_harness!(ser_int_i32, ser_key_i32, i32, u32, 11);
int_harness!(ser_int_u64, ser_key_u64, u64, u64, 20);
int_harness!(ser_int_i64, ser_key_i64, i64, u64, 20);
int_harness!(ser_int_u128, ser_key_u128, u128, u128, 40);
int_harness!(ser_int_i128, ser_key_i128, i128, u128, 40);

/// Non-finite floats are `null` (classification is bit tests; no float arithmetic).
pub fn ser_float_nonfinite_f32(nd: &mut Nd) {
    let bits = nd.u32();
    nd.assume(bits & 0x7f80_0000 == 0x7f80_0000);
    let v = f32::from_bits(bits);
    let n = diff::<f32, 4>(nd, &v);
    assert!(n == 4, "C03.non_finite_float_is_null");
    cover!(nd, bits & 0x007f_ffff != 0, "NaN");
    cover!(nd, bits == 0xff80_0000, "negative infinity");
}

pub fn ser_float_nonfinite_f64(nd: &mut Nd) {
    let bits = nd.u64();
    nd.assume(bits & 0x7ff0_0000_0000_0000 == 0x7ff0_0000_0000_0000);
    let v = f64::from_bits(bits);
    let n = diff::<f64, 4>(nd, &v);
    assert!(n == 4, "C03.non_finite_float_is_null");
    cover!(nd, bits & 0x000f_ffff_ffff_ffff != 0, "NaN");
}

/// Finite floats: both encoders hand the value to `ryu` and emit what it returns. The harness
/// macro variant `ryu` stubs `ryu::Buffer::format_finite` (digit generation is third-party) by a
/// text chosen by the harness; the classification finite / non-finite is the real code.
pub fn ser_float_finite_f32(nd: &mut Nd) {
    let bits = nd.u32();
    nd.assume(bits & 0x7f80_0000 != 0x7f80_0000);
    crate::stubs::set_ryu_choice(nd.below(crate::stubs::RYU_TEXTS.len()));
    let v = f32::from_bits(bits);
    diff::<f32, 26>(nd, &v);
    cover!(nd, bits & 0x7f80_0000 == 0, "zero or subnormal");
}

pub fn ser_float_finite_f64(nd: &mut Nd) {
    let bits = nd.u64();
    nd.assume(bits & 0x7ff0_0000_0000_0000 != 0x7ff0_0000_0000_0000);
    crate::stubs::set_ryu_choice(nd.below(crate::stubs::RYU_TEXTS.len()));
    let v = f64::from_bits(bits);
    diff::<f64, 26>(nd, &v);
    cover!(nd, bits & 0x7ff0_0000_0000_0000 == 0, "zero or subnormal");
}

// ------------------------------------------------------------------------------------ shapes

#[derive(Debug, Serialize)]
pub struct Unit;
#[derive(Debug, Serialize)]
pub struct Newtype(pub u8);
#[derive(Debug, Serialize)]
pub struct TupS(pub u8, pub bool);
#[derive(Debug, Serialize)]
pub struct S2 {
    pub a: u8,
    pub b: bool,
}
#[derive(Debug, Serialize)]
pub enum E {
    U,
    N(u8),
    T(u8, bool),
    S { a: u8 },
}

/// bool, unit, unit struct, `Option<u8>`, newtype struct.
pub fn ser_shape_scalars(nd: &mut Nd) {
    match nd.below(6) {
        0 => {
            let b = nd.bool();
            diff::<bool, 5>(nd, &b);
        }
        1 => {
            diff::<(), 4>(nd, &());
        }
        2 => {
            diff::<Unit, 4>(nd, &Unit);
        }
        3 => {
            let o: Option<u8> = if nd.bool() { Some(nd.u8()) } else { None };
            diff::<Option<u8>, 4>(nd, &o);
        }
        4 => {
            let v = Newtype(nd.u8());
            diff::<Newtype, 3>(nd, &v);
        }
        _ => {
            let o: Option<()> = if nd.bool() { Some(()) } else { None };
            diff::<Option<()>, 4>(nd, &o);
        }
    }
}

/// Tuple, tuple struct, struct with two fields.
pub fn ser_shape_products(nd: &mut Nd) {
    let (a, b) = (nd.u8(), nd.bool());
    match nd.below(3) {
        0 => {
            diff::<(u8, bool), 11>(nd, &(a, b));
        }
        1 => {
            diff::<TupS, 11>(nd, &TupS(a, b));
        }
        _ => {
            diff::<S2, 19>(nd, &S2 { a, b });
        }
    }
}

/// The four enum variant kinds.
pub fn ser_shape_enum(nd: &mut Nd) {
    let (a, b) = (nd.u8(), nd.bool());
    let e = match nd.below(4) {
        0 => E::U,
        1 => E::N(a),
        2 => E::T(a, b),
        _ => E::S { a },
    };
    diff::<E, 17>(nd, &e);
}

#[derive(Debug, Serialize)]
pub struct Empty0 {}
#[derive(Debug, Serialize)]
pub struct EmptyT();
#[derive(Debug, Serialize)]
pub enum E0 {
    S0 {},
    T0(),
    /// a struct variant whose fields may all be skipped: serde passes the number of fields that
    /// are actually written
    Opt {
        #[serde(skip_serializing_if = "Option::is_none")]
        a: Option<u8>,
        #[serde(skip_serializing_if = "Option::is_none")]
        b: Option<bool>,
    },
}
#[derive(Debug, Serialize)]
pub struct SkipAll {
    #[serde(skip_serializing_if = "Option::is_none")]
    pub a: Option<u8>,
    #[serde(skip_serializing_if = "Option::is_none")]
    pub b: Option<bool>,
}

/// Containers with nothing in them (empty struct / tuple struct / struct variant / tuple variant,
/// a struct or struct variant all of whose fields are skipped), alone and followed by a sibling
/// inside an enclosing tuple (so that a missing closing bracket shows).
pub fn ser_shape_empty<const CASE: usize>(nd: &mut Nd) {
    let av = nd.u8();
    let bv = nd.bool();
    let tail = nd.bool();
    // which optional fields are present is fixed by the instance (concrete offsets, R1)
    match CASE {
        0 => {
            diff::<(Empty0, bool), 12>(nd, &(Empty0 {}, tail));
        }
        1 => {
            diff::<(EmptyT, bool), 12>(nd, &(EmptyT(), tail));
        }
        2 => {
            diff::<(E0, bool), 19>(nd, &(E0::S0 {}, tail));
        }
        3 => {
            diff::<(E0, bool), 19>(nd, &(E0::T0(), tail));
        }
        4 => {
            diff::<(E0, bool), 20>(nd, &(E0::Opt { a: None, b: None }, tail));
        }
        5 => {
            diff::<(E0, bool), 28>(nd, &(E0::Opt { a: Some(av), b: None }, tail));
        }
        6 => {
            diff::<(SkipAll, bool), 12>(nd, &(SkipAll { a: None, b: None }, tail));
        }
        _ => {
            diff::<(SkipAll, bool), 22>(nd, &(SkipAll { a: None, b: Some(bv) }, tail));
        }
    }
    cover!(nd, tail, "sibling after the container");
}

/// Sequences of symbolic length 0..=2 (slice of `u8` → `[1,2]`).
pub fn ser_shape_seq(nd: &mut Nd) {
    let arr = [nd.u8(), nd.u8()];
    let n = nd.below(3);
    diff::<[u8], 9>(nd, &arr[..n]);
}

/// Sequence of strings: `["a","b"]`, symbolic length 0..=2.
pub fn ser_shape_seq_str(nd: &mut Nd) {
    let b = [nd.ascii(), nd.ascii()];
    let s0 = crate::nd::str_of(&b[0..1]);
    let s1 = crate::nd::str_of(&b[1..2]);
    let arr = [s0, s1];
    let n = nd.below(3);
    diff::<[&str], 19>(nd, &arr[..n]);
}

#[derive(Debug)]
pub struct MapN<K, V> {
    pub keys: [K; 2],
    pub vals: [V; 2],
    pub n: usize,
    pub hint: bool,
}
impl<K: Serialize, V: Serialize> Serialize for MapN<K, V> {
    fn serialize<S: Serializer>(&self, s: S) -> Result<S::Ok, S::Error> {
        let mut m = s.serialize_map(if self.hint { Some(self.n) } else { None })?;
        let mut i = 0;
        while i < 2 {
            if i < self.n {
                m.serialize_key(&self.keys[i])?;
                m.serialize_value(&self.vals[i])?;
            }
            i += 1;
        }
        m.end()
    }
}

/// Maps with 0..=2 entries, `u8` keys (quoted), bool values, with and without a length hint.
pub fn ser_shape_map(nd: &mut Nd) {
    let m = MapN {
        keys: [nd.u8(), nd.u8()],
        vals: [nd.bool(), nd.bool()],
        n: nd.below(3),
        hint: nd.bool(),
    };
    diff::<_, 27>(nd, &m);
}

#[derive(Debug)]
pub struct Bytes<'a>(pub &'a [u8]);
impl Serialize for Bytes<'_> {
    fn serialize<S: Serializer>(&self, s: S) -> Result<S::Ok, S::Error> {
        s.serialize_bytes(self.0)
    }
}

/// Byte arrays of length 0..=2.
pub fn ser_shape_bytes(nd: &mut Nd) {
    let arr = [nd.u8(), nd.u8()];
    let n = nd.below(3);
    diff::<_, 9>(nd, &Bytes(&arr[..n]));
}

#[derive(Debug, Serialize)]
pub struct Nest<'a> {
    pub o: Option<TupS>,
    pub e: E,
    pub l: &'a [bool],
}

/// Nesting depth 2: struct of option-of-tuple-struct, enum and sequence.
pub fn ser_shape_nested(nd: &mut Nd) {
    let l = [nd.bool()];
    let v = Nest {
        o: if nd.bool() { Some(TupS(7, nd.bool())) } else { None },
        e: match nd.below(3) {
            0 => E::U,
            1 => E::N(9),
            _ => E::S { a: 1 },
        },
        l: &l[..nd.below(2)],
    };
    diff::<_, 50>(nd, &v);
}

// ------------------------------------------------------------------------------------ map keys

#[derive(Debug, Serialize)]
pub enum KeyEnum {
    Alpha,
    #[serde(rename = "b\"")]
    Beta,
}
#[derive(Debug, Serialize)]
pub struct KeyNewtype<'a>(pub &'a str);

/// Key kinds that must be accepted and quoted as serde_json does: `&str`, unit variant, newtype
/// struct around a string.
pub fn ser_key_accepted(nd: &mut Nd) {
    ser_key_accepted_k::<3>(nd)
}

/// The same with the key kind fixed by the instance (K = 3: symbolic choice).
pub fn ser_key_accepted_k<const K: usize>(nd: &mut Nd) {
    let b = [nd.ascii()];
    let s = crate::nd::str_of(&b);
    let hint = nd.bool();
    match if K < 3 { K } else { nd.below(3) } {
        0 => {
            diff::<_, 16>(nd, &Map1(s, 1u8, hint));
        }
        1 => {
            let k = if nd.bool() { KeyEnum::Alpha } else { KeyEnum::Beta };
            diff::<_, 12>(nd, &Map1(k, 1u8, hint));
        }
        _ => {
            diff::<_, 16>(nd, &Map1(KeyNewtype(s), 1u8, hint));
        }
    }
}

fn refused<T: Serialize>(nd: &mut Nd, v: &T) {
    let cap = nd.below(17);
    let mut zb = [0u8; 16];
    let zr = to_slice(v, &mut zb[..cap]);
    match zr {
        Ok(_) => panic!("C03.non_string_like_map_key_is_refused"),
        Err(e) => {
            if cap >= 2 {
                assert!(e == JsonSerError::KeyMustBeAString, "C03.non_string_like_map_key_is_refused");
            }
        }
    }
    cover!(nd, cap >= 2, "room for the opening brace");
}

/// Key kinds that must be refused: bool, floats, unit, option, bytes, sequence, tuple, struct,
/// map, non-unit variants.
pub fn ser_key_refused(nd: &mut Nd) {
    match nd.below(12) {
        0 => refused(nd, &Map1(true, 1u8, false)),
        1 => {
            let f = f32::from_bits(nd.u32());
            refused(nd, &Map1(f, 1u8, false))
        }
        2 => {
            let f = f64::from_bits(nd.u64());
            refused(nd, &Map1(f, 1u8, true))
        }
        3 => refused(nd, &Map1((), 1u8, false)),
        4 => refused(nd, &Map1(Some("k"), 1u8, false)),
        5 => refused(nd, &Map1(None::<u8>, 1u8, false)),
        6 => refused(nd, &Map1(Bytes(b"k"), 1u8, false)),
        7 => refused(nd, &Map1([1u8, 2u8], 1u8, false)),
        8 => refused(nd, &Map1(S2 { a: 1, b: false }, 1u8, false)),
        9 => refused(nd, &Map1(E::N(1), 1u8, false)),
        10 => refused(nd, &Map1(Unit, 1u8, false)),
        _ => refused(nd, &Map1(Map1("k", 1u8, false), 1u8, false)),
    }
}
