//! Scripted transport halves. They honour the documented contracts of `ReadHalf`/`WriteHalf`:
//! a `read` future transfers data only in the poll that returns `Ready` (cancel safe), `write`
//! is write-all-or-error.

use core::{
    future::Future,
    pin::Pin,
    task::{Context, Poll},
};
use zlink_core::connection::socket::{ReadHalf, Socket, WriteHalf};

pub const CHUNK: usize = 8;
pub const STEPS: usize = 6;

#[derive(Clone, Copy, Debug, PartialEq)]
pub enum Step {
    /// The read future returns `Pending` once (and is woken immediately).
    Pending,
    /// Deliver up to `n` bytes (capped by the space offered).
    Data { n: usize, bytes: [u8; CHUNK] },
    /// `Ok(0)`: peer closed the stream.
    Eof,
    /// Transport error.
    Fail,
}

/// Read half replaying a fixed script; after the script it reports end of stream.
#[derive(Debug)]
pub struct ScriptRead {
    /// The script lives outside (on the harness' stack): the read half itself holds only concrete
    /// scalars, so that moving it into a connection does not turn its counters into byte-extracts
    /// of a partly symbolic object.
    pub steps: *const [Step; STEPS],
    pub nsteps: usize,
    pub next: usize,
    /// Bytes actually delivered by step k (0 for non-data steps).
    pub got: [usize; STEPS],
    /// Number of times `read()` was called / polled.
    pub calls: usize,
    pub polls: usize,
    /// Space offered by the most recent poll.
    pub last_space: usize,
    /// What a read beyond the script does: `false` = end of stream (`Ok(0)`); `true` = the
    /// exploration ends there (paths that read more than the scripted number of times are outside
    /// the harness bound and are cut with an assumption).
    pub cut_after_script: bool,
}

impl ScriptRead {
    pub fn new(steps: &[Step; STEPS], nsteps: usize) -> Self {
        ScriptRead {
            steps,
            nsteps,
            next: 0,
            got: [0; STEPS],
            calls: 0,
            polls: 0,
            last_space: 0,
            cut_after_script: false,
        }
    }

    pub fn idle() -> Self {
        static IDLE: [Step; STEPS] = [Step::Eof; STEPS];
        Self::new(&IDLE, 0)
    }

    pub fn step(&self, k: usize) -> Step {
        unsafe { (*self.steps)[k] }
    }
}

/// Global poll budget of the scripted read halves. Symbolic execution keeps unrolling the
/// connection's read loop as long as it cannot see *syntactically* that the transport is exhausted;
/// values that travel through a coroutine's saved state are not constant-propagated by CBMC, so the
/// bound is kept in plain statics (accessed by name): once more than `READ_POLL_LIMIT` polls have
/// been made the path is cut. Harnesses set the limit to the number of polls their script can
/// absorb (scripted steps + the end-of-stream poll), so no in-bound behaviour is lost; a
/// connection that polls the transport more often than that is cut, not passed: every harness
/// asserts the number of script steps consumed.
pub static mut READ_POLLS: usize = 0;
pub static mut READ_POLL_LIMIT: usize = usize::MAX;

/// At most `n` transport polls within one poll of a connection future.
pub fn set_read_poll_limit(n: usize) {
    unsafe {
        READ_POLLS = 0;
        READ_POLL_LIMIT = n;
    }
}

pub fn begin_poll() {
    unsafe {
        READ_POLLS = 0;
    }
}

pub struct ReadFut<'a, 'b> {
    s: &'a mut ScriptRead,
    buf: &'b mut [u8],
}

impl Future for ReadFut<'_, '_> {
    type Output = zlink_core::Result<usize>;
    fn poll(self: Pin<&mut Self>, cx: &mut Context<'_>) -> Poll<Self::Output> {
        let this = self.get_mut();
        unsafe {
            READ_POLLS += 1;
            if READ_POLLS > READ_POLL_LIMIT {
                crate::nd::cut_path();
            }
        }
        this.s.polls += 1;
        this.s.last_space = this.buf.len();
        if this.s.next >= this.s.nsteps {
            if this.s.cut_after_script {
                crate::nd::cut_path();
            }
            return Poll::Ready(Ok(0));
        }
        let k = this.s.next;
        this.s.next += 1;
        match this.s.step(k) {
            Step::Pending => {
                cx.waker().wake_by_ref();
                Poll::Pending
            }
            Step::Eof => Poll::Ready(Ok(0)),
            Step::Fail => Poll::Ready(Err(zlink_core::Error::SocketRead)),
            Step::Data { n, bytes } => {
                let mut i = 0;
                let mut put = 0;
                while i < CHUNK {
                    if i < n && i < this.buf.len() {
                        this.buf[i] = bytes[i];
                        put += 1;
                    }
                    i += 1;
                }
                this.s.got[k] = put;
                Poll::Ready(Ok(put))
            }
        }
    }
}

impl ReadHalf for ScriptRead {
    // A hand-written future, not an `async fn`: a coroutine nested inside the connection's own
    // coroutine made CBMC's encoding explode (8 GB within a minute for a 8-byte flush).
    fn read<'s, 'b>(&'s mut self, buf: &'b mut [u8]) -> impl Future<Output = zlink_core::Result<usize>> + use<'s, 'b> {
        self.calls += 1;
        ReadFut { s: self, buf }
    }
}

/// Read half that delivers one burst of `n` bytes (`n` concrete, content symbolic) in its first
/// read and reports end of stream afterwards. Unlike `ScriptRead` its control fields are plain
/// scalars of the struct itself and the number of bytes delivered is computed without a loop, so
/// that the connection's cursors stay concrete after the read (R1).
#[derive(Debug)]
pub struct BurstRead {
    pub bytes: *const [u8; CHUNK],
    pub n: usize,
    pub reads: usize,
    pub calls: usize,
}

pub struct BurstFut<'a, 'b> {
    s: &'a mut BurstRead,
    buf: &'b mut [u8],
}

impl Future for BurstFut<'_, '_> {
    type Output = zlink_core::Result<usize>;
    fn poll(self: Pin<&mut Self>, _cx: &mut Context<'_>) -> Poll<Self::Output> {
        let this = self.get_mut();
        unsafe {
            READ_POLLS += 1;
            if READ_POLLS > READ_POLL_LIMIT {
                crate::nd::cut_path();
            }
        }
        this.s.reads += 1;
        if this.s.reads > 1 {
            return Poll::Ready(Ok(0));
        }
        let space = this.buf.len();
        let put = if this.s.n < space { this.s.n } else { space };
        let mut i = 0;
        while i < CHUNK {
            if i < put {
                this.buf[i] = unsafe { (*this.s.bytes)[i] };
            }
            i += 1;
        }
        Poll::Ready(Ok(put))
    }
}

impl ReadHalf for BurstRead {
    fn read<'s, 'b>(&'s mut self, buf: &'b mut [u8]) -> impl Future<Output = zlink_core::Result<usize>> + use<'s, 'b> {
        self.calls += 1;
        BurstFut { s: self, buf }
    }
}

pub const CAP: usize = 72;
pub const MAXW: usize = 3;

/// Write half recording every write (count, length, bytes).
#[derive(Debug)]
pub struct CaptureWrite {
    pub writes: usize,
    pub lens: [usize; MAXW],
    pub data: [[u8; CAP]; MAXW],
    /// The write with this ordinal (0-based) fails.
    pub fail_at: Option<usize>,
    /// Number of `Pending`s before each write completes.
    pub pend: usize,
}

impl CaptureWrite {
    pub fn new() -> Self {
        CaptureWrite {
            writes: 0,
            lens: [0; MAXW],
            data: [[0; CAP]; MAXW],
            fail_at: None,
            pend: 0,
        }
    }
}

pub struct WriteFut<'a, 'b> {
    s: &'a mut CaptureWrite,
    buf: &'b [u8],
    pend_left: usize,
}

impl Future for WriteFut<'_, '_> {
    type Output = zlink_core::Result<()>;
    fn poll(self: Pin<&mut Self>, cx: &mut Context<'_>) -> Poll<Self::Output> {
        let this = self.get_mut();
        if this.pend_left > 0 {
            this.pend_left -= 1;
            cx.waker().wake_by_ref();
            return Poll::Pending;
        }
        let k = this.s.writes;
        this.s.writes += 1;
        if this.s.fail_at == Some(k) {
            return Poll::Ready(Err(zlink_core::Error::SocketWrite));
        }
        if k < MAXW {
            this.s.lens[k] = this.buf.len();
            let mut i = 0;
            while i < CAP {
                if i < this.buf.len() {
                    this.s.data[k][i] = this.buf[i];
                }
                i += 1;
            }
        }
        Poll::Ready(Ok(()))
    }
}

impl WriteHalf for CaptureWrite {
    fn write<'s, 'b>(&'s mut self, buf: &'b [u8]) -> impl Future<Output = zlink_core::Result<()>> + use<'s, 'b> {
        let pend_left = self.pend;
        WriteFut {
            s: self,
            buf,
            pend_left,
        }
    }
}

#[derive(Debug)]
pub struct ScriptSocket {
    pub r: ScriptRead,
    pub w: CaptureWrite,
}

impl ScriptSocket {
    pub fn idle() -> Self {
        ScriptSocket {
            r: ScriptRead::idle(),
            w: CaptureWrite::new(),
        }
    }
}

impl Socket for ScriptSocket {
    type ReadHalf = ScriptRead;
    type WriteHalf = CaptureWrite;
    fn split(self) -> (ScriptRead, CaptureWrite) {
        (self.r, self.w)
    }
}
