//! C13 — the IDL parser accepts exactly the Varlink grammar (per production), compared with
//! reference recognisers written from the published grammar
//! (https://varlink.org/Interface-Definition):
//!
//!   interface_name = [A-Za-z]([-]*[A-Za-z0-9])*(\.[A-Za-z0-9]([-]*[A-Za-z0-9])*)+
//!   name           = [A-Z][A-Za-z0-9]*
//!   field_name     = [A-Za-z]([_]?[A-Za-z0-9])*
//!   type           = "?" non_optional / non_optional
//!   non_optional   = "[]" type / "[string]" type / element
//!   element        = "bool" / "int" / "float" / "string" / "object" / name / enum / struct
//!   enum           = "(" _ field_name (_ "," _ field_name)* _ ")"
//!   struct         = "(" _ (argument (_ "," _ argument)*)? _ ")"
//!   argument       = field_name _ ":" _ type
//!   _              = (whitespace / "#" [^\n\r]* eol)*
//!
//! The recognisers return the length of the longest match (PEG semantics: ordered choice, greedy
//! repetition), which is what a production of the real parser consumes when it succeeds.

use crate::{cover, Nd};
use zlink_core::idl::{parse_verif as real, Type};

fn alpha(b: u8) -> bool {
    b.is_ascii_alphabetic()
}
fn alnum(b: u8) -> bool {
    b.is_ascii_alphanumeric()
}

/// `('-'* alnum)*` starting at i; returns the new index.
fn dash_alnum_run(s: &[u8], mut i: usize) -> usize {
    loop {
        let mut j = i;
        while j < s.len() && s[j] == b'-' {
            j += 1;
        }
        if j < s.len() && alnum(s[j]) {
            i = j + 1;
        } else {
            return i;
        }
    }
}

pub fn ref_interface_name(s: &[u8]) -> Option<usize> {
    if s.is_empty() || !alpha(s[0]) {
        return None;
    }
    let mut i = dash_alnum_run(s, 1);
    let mut segments = 0;
    while i + 1 < s.len() && s[i] == b'.' && alnum(s[i + 1]) {
        i = dash_alnum_run(s, i + 2);
        segments += 1;
    }
    if segments == 0 {
        None
    } else {
        Some(i)
    }
}

pub fn ref_type_name(s: &[u8]) -> Option<usize> {
    if s.is_empty() || !s[0].is_ascii_uppercase() {
        return None;
    }
    let mut i = 1;
    while i < s.len() && alnum(s[i]) {
        i += 1;
    }
    Some(i)
}

pub fn ref_field_name(s: &[u8]) -> Option<usize> {
    if s.is_empty() || !alpha(s[0]) {
        return None;
    }
    let mut i = 1;
    loop {
        if i < s.len() && alnum(s[i]) {
            i += 1;
        } else if i + 1 < s.len() && s[i] == b'_' && alnum(s[i + 1]) {
            i += 2;
        } else {
            return Some(i);
        }
    }
}

/// `_`: whitespace and `#` line comments.
pub fn ref_ws(s: &[u8], mut i: usize) -> usize {
    loop {
        let start = i;
        while i < s.len() && matches!(s[i], b' ' | b'\t' | b'\n' | b'\r') {
            i += 1;
        }
        if i < s.len() && s[i] == b'#' {
            i += 1;
            while i < s.len() && s[i] != b'\n' && s[i] != b'\r' {
                i += 1;
            }
            if i < s.len() {
                if s[i] == b'\r' && i + 1 < s.len() && s[i + 1] == b'\n' {
                    i += 2;
                } else {
                    i += 1;
                }
            }
        }
        if i == start {
            return i;
        }
    }
}

#[derive(Clone, Copy, PartialEq, Debug)]
pub enum Kind {
    Bool,
    Int,
    Float,
    Str,
    Object,
    Custom,
    Optional,
    Array,
    Map,
    Enum,
    Struct,
    /// `()`: an empty enum or an empty struct — the grammar texts in circulation differ, both
    /// readings are accepted.
    EmptyParens,
}

fn starts(s: &[u8], i: usize, lit: &[u8]) -> bool {
    i + lit.len() <= s.len() && &s[i..i + lit.len()] == lit
}

/// Result of the reference type recogniser.
#[derive(Clone, Copy, PartialEq, Debug)]
pub enum Rec {
    /// Not a type at this position.
    No,
    /// A type of this top-level kind ending at this index.
    Yes(usize, Kind),
    /// Nesting deeper than the recogniser's bound: no verdict.
    Deep,
}

/// `type` at index i with at most `depth` levels of inline nesting.
pub fn ref_type(s: &[u8], i: usize, depth: usize) -> Rec {
    let mut i = i;
    let mut top: Option<Kind> = None;
    let mut allow_opt = true;
    loop {
        if allow_opt && i < s.len() && s[i] == b'?' {
            top = top.or(Some(Kind::Optional));
            i += 1;
            allow_opt = false;
        } else if starts(s, i, b"[]") {
            top = top.or(Some(Kind::Array));
            i += 2;
            allow_opt = true;
        } else if starts(s, i, b"[string]") {
            top = top.or(Some(Kind::Map));
            i += 8;
            allow_opt = true;
        } else {
            break;
        }
    }
    let (end, k) = if starts(s, i, b"bool") {
        (i + 4, Kind::Bool)
    } else if starts(s, i, b"int") {
        (i + 3, Kind::Int)
    } else if starts(s, i, b"float") {
        (i + 5, Kind::Float)
    } else if starts(s, i, b"string") {
        (i + 6, Kind::Str)
    } else if starts(s, i, b"object") {
        (i + 6, Kind::Object)
    } else if let Some(n) = ref_type_name(&s[i..]) {
        (i + n, Kind::Custom)
    } else if i < s.len() && s[i] == b'(' {
        if depth == 0 {
            return Rec::Deep;
        }
        match ref_inline(s, i, depth - 1) {
            Rec::Yes(e, k) => (e, k),
            other => return other,
        }
    } else {
        return Rec::No;
    };
    Rec::Yes(end, top.unwrap_or(k))
}

/// `enum / struct` at index i (s[i] == '('). Ordered choice as in the grammar: enum first.
fn ref_inline(s: &[u8], i: usize, depth: usize) -> Rec {
    // enum: "(" _ field_name (_ "," _ field_name)* _ ")"
    let mut j = ref_ws(s, i + 1);
    if let Some(n) = ref_field_name(&s[j..]) {
        let mut e = j + n;
        loop {
            let k = ref_ws(s, e);
            if k < s.len() && s[k] == b',' {
                let k2 = ref_ws(s, k + 1);
                if let Some(n2) = ref_field_name(&s[k2..]) {
                    e = k2 + n2;
                    continue;
                }
            }
            break;
        }
        let k = ref_ws(s, e);
        if k < s.len() && s[k] == b')' {
            return Rec::Yes(k + 1, Kind::Enum);
        }
    }
    // struct: "(" _ (argument (_ "," _ argument)*)? _ ")"
    j = ref_ws(s, i + 1);
    let mut e = j;
    let mut first = true;
    loop {
        let a = if first { e } else {
            let k = ref_ws(s, e);
            if !(k < s.len() && s[k] == b',') {
                break;
            }
            ref_ws(s, k + 1)
        };
        let n = match ref_field_name(&s[a..]) {
            Some(n) => n,
            None => break,
        };
        let c = ref_ws(s, a + n);
        if !(c < s.len() && s[c] == b':') {
            break;
        }
        let t = ref_ws(s, c + 1);
        match ref_type(s, t, depth) {
            Rec::Yes(te, _) => e = te,
            Rec::No => break,
            Rec::Deep => return Rec::Deep,
        }
        first = false;
    }
    let k = ref_ws(s, e);
    if k < s.len() && s[k] == b')' {
        Rec::Yes(k + 1, if first { Kind::EmptyParens } else { Kind::Struct })
    } else {
        Rec::No
    }
}

fn kind_of(t: &Type<'_>) -> Kind {
    match t {
        Type::Bool => Kind::Bool,
        Type::Int => Kind::Int,
        Type::Float => Kind::Float,
        Type::String => Kind::Str,
        Type::ForeignObject => Kind::Object,
        Type::Custom(_) => Kind::Custom,
        Type::Optional(_) => Kind::Optional,
        Type::Array(_) => Kind::Array,
        Type::Map(_) => Kind::Map,
        Type::Enum(_) => Kind::Enum,
        Type::Object(_) => Kind::Struct,
        _ => Kind::Struct,
    }
}

fn any_ascii<const N: usize>(nd: &mut Nd) -> [u8; N] {
    let mut b = [0u8; N];
    let mut i = 0;
    while i < N {
        b[i] = nd.ascii();
        i += 1;
    }
    b
}

fn check_name(
    nd: &mut Nd,
    bytes: &[u8],
    real: Option<(&str, usize)>,
    reference: Option<usize>,
) {
    match (real, reference) {
        (Some((name, used)), Some(n)) => {
            assert!(used == n, "C13.production_consumes_exactly_the_longest_grammatical_match");
            assert!(name.len() == n, "C13.name_is_the_matched_text");
            let nb = name.as_bytes();
            let mut i = 0;
            while i < bytes.len() {
                if i < n {
                    assert!(nb[i] == bytes[i], "C13.name_is_the_matched_text");
                }
                i += 1;
            }
        }
        (None, None) => {}
        (Some(_), None) => panic!("C13.ungrammatical_text_is_rejected"),
        (None, Some(_)) => panic!("C13.grammatical_text_is_accepted"),
    }
    cover!(nd, reference.is_some() && reference.unwrap() == bytes.len(), "whole input is a name");
    cover!(nd, reference.is_some() && reference.unwrap() < bytes.len(), "name followed by other text");
}

/// `interface_name` on N arbitrary ASCII bytes.
pub fn idl_iface_name<const N: usize>(nd: &mut Nd) {
    let b: [u8; N] = any_ascii(nd);
    let r = real::interface_name(&b);
    let e = ref_interface_name(&b);
    check_name(nd, &b, r, e);
}

pub fn idl_field_name<const N: usize>(nd: &mut Nd) {
    let b: [u8; N] = any_ascii(nd);
    let r = real::field_name(&b);
    let e = ref_field_name(&b);
    check_name(nd, &b, r, e);
}

pub fn idl_type_name<const N: usize>(nd: &mut Nd) {
    let b: [u8; N] = any_ascii(nd);
    let r = real::type_name(&b);
    let e = ref_type_name(&b);
    check_name(nd, &b, r, e);
}

/// `_` (whitespace and comments) on N arbitrary ASCII bytes.
pub fn idl_ws<const N: usize>(nd: &mut Nd) {
    let b: [u8; N] = any_ascii(nd);
    let r = real::ws(&b);
    let e = ref_ws(&b, 0);
    match r {
        Some(((), used)) => assert!(used == e, "C13.production_consumes_exactly_the_longest_grammatical_match"),
        None => panic!("C13.whitespace_production_never_fails"),
    }
    cover!(nd, e == N && b[0] == b'#', "comment up to the end of input");
}

/// `type` on a first byte of class FIRST followed by N-1 arbitrary ASCII bytes.
/// FIRST: 0 '?', 1 '[', 2 '(', 3 ')', 4 upper-case letter, 5 one of b/i/f/s/o, 6 anything else.
pub fn idl_type<const FIRST: usize, const N: usize>(nd: &mut Nd) {
    let mut b: [u8; N] = any_ascii(nd);
    match FIRST {
        0 => b[0] = b'?',
        1 => b[0] = b'[',
        2 => b[0] = b'(',
        3 => b[0] = b')',
        4 => nd.assume(b[0].is_ascii_uppercase()),
        5 => nd.assume(matches!(b[0], b'b' | b'i' | b'f' | b's' | b'o')),
        _ => nd.assume(
            !matches!(b[0], b'?' | b'[' | b'(' | b')' | b'b' | b'i' | b'f' | b's' | b'o')
                && !b[0].is_ascii_uppercase(),
        ),
    }
    let r = real::varlink_type(&b);
    let e = ref_type(&b, 0, 2);
    match (&r, e) {
        (_, Rec::Deep) => {
            // outside the recogniser's bound: only "no panic" is claimed
        }
        (Some((t, used)), Rec::Yes(n, k)) => {
            assert!(*used == n, "C13.production_consumes_exactly_the_longest_grammatical_match");
            let got = kind_of(t);
            assert!(
                got == k || (k == Kind::EmptyParens && (got == Kind::Enum || got == Kind::Struct)),
                "C13.parsed_tree_has_the_denoted_constructor"
            );
        }
        (None, Rec::No) => {}
        (Some(_), Rec::No) => panic!("C13.ungrammatical_text_is_rejected"),
        (None, Rec::Yes(..)) => panic!("C13.grammatical_text_is_accepted"),
    }
    cover!(nd, matches!(e, Rec::Yes(n, _) if n == N), "whole input is a type");
    core::mem::forget(r);
}

// ------------------------------------------------------------------------------------------
// Mutation family: a corpus text with ONE arbitrary byte at a concrete position. The rest of the
// text is concrete, so symbolic execution follows essentially one parser path; the solver decides
// all 128 values of the byte at once. Texts are single-line and comment-free (a `#` introduced by
// the arbitrary byte comments out the rest of the text and both sides reject it).

fn ws1(b: u8) -> bool {
    matches!(b, b' ' | b'\t' | b'\n' | b'\r')
}

/// Inline struct only (`parameter_list`): `(` fields `)` with every field typed.
fn ref_struct(s: &[u8], i: usize, depth: usize) -> Rec {
    if !(i < s.len() && s[i] == b'(') {
        return Rec::No;
    }
    match ref_inline(s, i, depth) {
        Rec::Yes(e, Kind::Struct) => Rec::Yes(e, Kind::Struct),
        Rec::Yes(e, Kind::EmptyParens) => Rec::Yes(e, Kind::Struct),
        Rec::Yes(_, _) => Rec::No,
        other => other,
    }
}

/// `_ keyword ws+ _ name _` ; returns the index after it.
fn ref_member_head(s: &[u8], kw: &[u8]) -> Option<usize> {
    let i = ref_ws(s, 0);
    if !starts(s, i, kw) {
        return None;
    }
    let mut j = i + kw.len();
    if !(j < s.len() && ws1(s[j])) {
        return None;
    }
    j = ref_ws(s, j);
    let n = ref_type_name(&s[j..])?;
    Some(ref_ws(s, j + n))
}

/// kind 1: `type Name (struct|enum)`; kind 2: `method Name struct -> struct`; kind 3: `error Name struct`.
pub fn ref_member(kind: usize, s: &[u8]) -> Rec {
    match kind {
        1 => match ref_member_head(s, b"type") {
            None => Rec::No,
            Some(j) => {
                if !(j < s.len() && s[j] == b'(') {
                    return Rec::No;
                }
                ref_inline(s, j, 2)
            }
        },
        2 => match ref_member_head(s, b"method") {
            None => Rec::No,
            Some(j) => match ref_struct(s, j, 2) {
                Rec::Yes(e, _) => {
                    let a = ref_ws(s, e);
                    if !starts(s, a, b"->") {
                        return Rec::No;
                    }
                    ref_struct(s, ref_ws(s, a + 2), 2)
                }
                other => other,
            },
        },
        _ => match ref_member_head(s, b"error") {
            None => Rec::No,
            Some(j) => ref_struct(s, j, 2),
        },
    }
}

pub const MUT_LEN: usize = 40;
/// (production, text): 0 type, 1 typedef, 2 method, 3 error.
pub const CORPUS: [(usize, &str); 33] = [
    (0, "?[string]?int"),
    (0, "[]?[string]bool"),
    (0, "(a: int, b)"),
    (0, "(a, b: int)"),
    (0, "(a: (b: ?T), c: [](x, y))"),
    (0, "?(one, two)"),
    (0, "[string](k: string)"),
    (0, "[][]object"),
    (0, "(a:float,b_c:?[]T)"),
    (0, "[string][]?[string]?Foo"),
    (1, "type T (a: int, b)"),
    (1, "type T (a, b: int)"),
    (1, "type Ab (x: ?[]int, y: T2)"),
    (1, "type E (one, two)"),
    (1, "type T ()"),
    (2, "method M(a: int) -> (b: [string]?T)"),
    (2, "method Ping() -> ()"),
    (2, "method M(a:) -> ()"),
    (3, "error NotFound (id: int)"),
    (3, "error E ()"),
    // short texts (<= 14 bytes): the loop bound of these instances is 16 instead of 42
    (0, "?[string]?T"),
    (0, "(a:T,b)"),
    (0, "(a,b:T)"),
    (0, "?(a,b)"),
    (0, "[](a:?T)"),
    (1, "type T(a:T,b)"),
    (2, "method M()->()"),
    (3, "error E(a:T)"),
    // minimal texts (2-5 bytes)
    (0, "?T"),
    (0, "[]T"),
    (0, "(a)"),
    (0, "(a,b)"),
    (0, "(a:T)"),
];

/// Corpus text S with an arbitrary ASCII byte at position POS.
pub fn idl_mut<const S: usize, const POS: usize>(nd: &mut Nd) {
    let (kind, text) = CORPUS[S];
    let tb = text.as_bytes();
    let len = tb.len();
    let mut b = [0u8; MUT_LEN];
    let mut i = 0;
    while i < len {
        b[i] = tb[i];
        i += 1;
    }
    let orig = b[POS];
    b[POS] = nd.ascii();
    let s = &b[..len];
    let (real_used, real_kind): (Option<usize>, Option<Kind>) = match kind {
        0 => {
            let r = real::varlink_type(s);
            let out = match &r {
                Some((t, used)) => (Some(*used), Some(kind_of(t))),
                None => (None, None),
            };
            core::mem::forget(r);
            out
        }
        1 => {
            let r = real::type_def(s);
            let out = match &r {
                Some((zlink_core::idl::CustomType::Object(_), used)) => (Some(*used), Some(Kind::Struct)),
                Some((zlink_core::idl::CustomType::Enum(_), used)) => (Some(*used), Some(Kind::Enum)),
                None => (None, None),
            };
            core::mem::forget(r);
            out
        }
        2 => {
            let r = real::method_def(s);
            let out = match &r {
                Some((_, used)) => (Some(*used), Some(Kind::Struct)),
                None => (None, None),
            };
            core::mem::forget(r);
            out
        }
        _ => {
            let r = real::error_def(s);
            let out = match &r {
                Some((_, used)) => (Some(*used), Some(Kind::Struct)),
                None => (None, None),
            };
            core::mem::forget(r);
            out
        }
    };
    let e = if kind == 0 { ref_type(s, 0, 2) } else { ref_member(kind, s) };
    match (real_used, e) {
        (_, Rec::Deep) => {}
        (Some(used), Rec::Yes(n, k)) => {
            assert!(used == n, "C13.production_consumes_exactly_the_longest_grammatical_match");
            let got = real_kind.unwrap_or(Kind::Struct);
            assert!(
                got == k || (k == Kind::EmptyParens && (got == Kind::Enum || got == Kind::Struct)),
                "C13.parsed_tree_has_the_denoted_constructor"
            );
        }
        (None, Rec::No) => {}
        (Some(_), Rec::No) => panic!("C13.ungrammatical_text_is_rejected"),
        (None, Rec::Yes(..)) => panic!("C13.grammatical_text_is_accepted"),
    }
    cover!(nd, b[POS] != orig && matches!(e, Rec::Yes(..)), "mutated text still grammatical");
    cover!(nd, matches!(e, Rec::No), "text rejected");
}
