//! Native replay of a counterexample script against the real crate (no stubs).
//!
//! usage: replay <harness> <script.json>     script = {"harness": .., "values": [[u8..]..]}
//! exit 0: body completed (property held on this input); 3: script violates an assumption;
//! 101 (panic): assertion failed natively — the counterexample reproduces.

#[cfg(kani)]
fn main() {}

#[cfg(not(kani))]
fn main() {
    use std::panic::{catch_unwind, AssertUnwindSafe};
    use zlink_verif_harness::{nd::Rejected, registry, Nd};

    let args: Vec<String> = std::env::args().collect();
    if args.len() == 2 && args[1] == "--list" {
        for (n, _) in registry() {
            println!("{n}");
        }
        return;
    }
    if args.len() == 4 && args[1] == "--smoke" {
        // replay --smoke <name-prefix> <iterations>: native smoke test of harness bodies.
        let iters: u64 = args[3].parse().expect("iterations");
        let mut bad = 0;
        for (n, body) in registry() {
            if !n.starts_with(args[2].as_str()) {
                continue;
            }
            let (mut ok, mut rej, mut fail) = (0u64, 0u64, 0u64);
            let mut first_fail = String::new();
            let mut covered: Vec<&'static str> = Vec::new();
            std::panic::set_hook(Box::new(|_| {}));
            for it in 0..iters {
                let mut nd = Nd::random(0x9E3779B97F4A7C15u64.wrapping_mul(it + 1));
                match catch_unwind(AssertUnwindSafe(|| body(&mut nd))) {
                    Ok(()) => {
                        ok += 1;
                        for c in nd.covered {
                            if !covered.contains(&c) {
                                covered.push(c);
                            }
                        }
                    }
                    Err(e) => {
                        if e.downcast_ref::<Rejected>().is_some() {
                            rej += 1;
                        } else {
                            fail += 1;
                            if first_fail.is_empty() {
                                first_fail = e
                                    .downcast_ref::<String>()
                                    .cloned()
                                    .or_else(|| e.downcast_ref::<&str>().map(|s| s.to_string()))
                                    .unwrap_or_default();
                            }
                        }
                    }
                }
            }
            println!("SMOKE {n}: ok={ok} rejected={rej} failed={fail} covered={covered:?} {first_fail}");
            if fail > 0 {
                bad += 1;
            }
        }
        std::process::exit(if bad > 0 { 1 } else { 0 });
    }
    if args.len() != 3 {
        eprintln!("usage: replay <harness> <script.json> | --list");
        std::process::exit(64);
    }
    let text = std::fs::read_to_string(&args[2]).expect("read script");
    let json: serde_json::Value = serde_json::from_str(&text).expect("parse script");
    let values: Vec<Vec<u8>> = json["values"]
        .as_array()
        .expect("values")
        .iter()
        .map(|v| {
            v.as_array()
                .expect("byte vector")
                .iter()
                .map(|b| b.as_u64().expect("byte") as u8)
                .collect()
        })
        .collect();
    let body = registry()
        .into_iter()
        .find(|(n, _)| *n == args[1])
        .unwrap_or_else(|| panic!("unknown harness {}", args[1]))
        .1;
    let mut nd = Nd::from_script(values);
    let res = catch_unwind(AssertUnwindSafe(|| body(&mut nd)));
    match res {
        Ok(()) => {
            println!("REPLAY-OK harness={} draws={} covered={:?}", args[1], nd.drawn, nd.covered);
        }
        Err(e) => {
            if e.downcast_ref::<Rejected>().is_some() {
                println!("REPLAY-REJECTED harness={} (script violates an assumption)", args[1]);
                std::process::exit(3);
            }
            let msg = e
                .downcast_ref::<String>()
                .cloned()
                .or_else(|| e.downcast_ref::<&str>().map(|s| s.to_string()))
                .unwrap_or_default();
            println!("REPLAY-FAILED harness={} message={}", args[1], msg);
            std::process::exit(101);
        }
    }
}
