//! Token-level serde endpoints for the envelope harnesses (C05): a `Serializer` that records a
//! message as a small fixed-capacity object tree, and a `Deserializer` that replays such a tree
//! with the dispatch rules of serde_json's `Deserializer` (which method calls which `visit_*`).
//! zlink's own code under test here is *serde impls*; JSON text is serde_json's business.
//!
//! The dispatch rules are validated natively against the real serde_json (see `to_json` and the
//! `p05::native_crosscheck`): every token tree a harness builds is also rendered to JSON text and
//! decoded with `serde_json::from_str`, and the two outcomes must agree.

use core::fmt::Display;
use serde::{
    de::{self, DeserializeSeed, IntoDeserializer, MapAccess, Visitor},
    ser::{self, Impossible, SerializeMap, SerializeStruct},
    Deserializer, Serialize, Serializer,
};

pub const TXT: usize = 48;
pub const MAXE: usize = 6;
pub const MAXF: usize = 2;

/// Short text with inline storage.
#[derive(Clone, Copy, Debug)]
pub struct Txt {
    pub b: [u8; TXT],
    pub n: usize,
}

impl Txt {
    pub const fn empty() -> Self {
        Txt { b: [0; TXT], n: 0 }
    }
    pub fn new(s: &str) -> Self {
        let mut t = Txt::empty();
        let sb = s.as_bytes();
        assert!(sb.len() <= TXT, "harness text capacity");
        let mut i = 0;
        while i < sb.len() {
            t.b[i] = sb[i];
            i += 1;
        }
        t.n = sb.len();
        t
    }
    pub fn as_str(&self) -> &str {
        // Only ever filled from `&str`s.
        unsafe { core::str::from_utf8_unchecked(&self.b[..self.n]) }
    }
    pub fn is(&self, s: &str) -> bool {
        self.as_str() == s
    }
}

// The value types are flat structs with a kind tag, not enums with payload: Kani lays payload enums
// out as unions, and a value stored in a union is read back through byte extraction, which loses
// constant propagation (a concrete method name inside `Val::Leaf(Leaf::Str(..))` became symbolic
// for every comparison serde made, and the member loop of `Call`'s `Deserialize` was then unrolled
// to the bound).

pub const K_NULL: u8 = 0;
pub const K_BOOL: u8 = 1;
pub const K_NUM: u8 = 2;
pub const K_STR: u8 = 3;

/// A scalar JSON value.
#[derive(Clone, Copy, Debug)]
pub struct Leaf {
    pub kind: u8,
    pub b: bool,
    pub n: u64,
    pub s: Txt,
}

#[allow(non_snake_case)]
impl Leaf {
    pub const Null: Leaf = Leaf { kind: K_NULL, b: false, n: 0, s: Txt::empty() };
    pub fn Bool(b: bool) -> Leaf {
        Leaf { kind: K_BOOL, b, n: 0, s: Txt::empty() }
    }
    pub fn Num(n: u64) -> Leaf {
        Leaf { kind: K_NUM, b: false, n, s: Txt::empty() }
    }
    pub fn Str(s: Txt) -> Leaf {
        Leaf { kind: K_STR, b: false, n: 0, s }
    }
    pub fn is_null(&self) -> bool {
        self.kind == K_NULL
    }
    pub fn is_bool(&self, b: bool) -> bool {
        self.kind == K_BOOL && self.b == b
    }
    pub fn is_num(&self, n: u64) -> bool {
        self.kind == K_NUM && self.n == n
    }
    pub fn is_str(&self, s: &str) -> bool {
        self.kind == K_STR && self.s.is(s)
    }
}

#[derive(Clone, Copy, Debug)]
pub struct Obj {
    pub n: usize,
    pub keys: [Txt; MAXF],
    pub vals: [Leaf; MAXF],
}

impl Obj {
    pub const fn empty() -> Self {
        Obj { n: 0, keys: [Txt::empty(); MAXF], vals: [Leaf::Null; MAXF] }
    }
    pub fn one(k: &str, v: Leaf) -> Self {
        let mut o = Obj::empty();
        o.n = 1;
        o.keys[0] = Txt::new(k);
        o.vals[0] = v;
        o
    }
}

pub const V_ABSENT: u8 = 0;
pub const V_LEAF: u8 = 1;
pub const V_OBJ: u8 = 2;

/// A member value: absent (the member is not in the object at all), a scalar, or an object.
#[derive(Clone, Copy, Debug)]
pub struct Val {
    pub kind: u8,
    pub leaf: Leaf,
    pub obj: Obj,
}

#[allow(non_snake_case)]
impl Val {
    pub const Absent: Val = Val { kind: V_ABSENT, leaf: Leaf::Null, obj: Obj::empty() };
    pub fn Leaf(l: Leaf) -> Val {
        Val { kind: V_LEAF, leaf: l, obj: Obj::empty() }
    }
    pub fn Obj(o: Obj) -> Val {
        Val { kind: V_OBJ, leaf: Leaf::Null, obj: o }
    }
    pub fn is_absent(&self) -> bool {
        self.kind == V_ABSENT
    }
    pub fn as_leaf(&self) -> Option<&Leaf> {
        if self.kind == V_LEAF { Some(&self.leaf) } else { None }
    }
    pub fn as_obj(&self) -> Option<&Obj> {
        if self.kind == V_OBJ { Some(&self.obj) } else { None }
    }
}

/// A JSON object of up to MAXE members, in order.
#[derive(Clone, Copy, Debug)]
pub struct MapTok {
    pub n: usize,
    pub keys: [Txt; MAXE],
    pub vals: [Val; MAXE],
}

impl MapTok {
    pub const fn empty() -> Self {
        MapTok { n: 0, keys: [Txt::empty(); MAXE], vals: [Val::Absent; MAXE] }
    }
    pub fn push(&mut self, k: &str, v: Val) {
        assert!(self.n < MAXE, "harness object capacity");
        assert!(!v.is_absent(), "harness: absent members are not pushed");
        self.keys[self.n] = Txt::new(k);
        self.vals[self.n] = v;
        self.n += 1;
    }
    /// Index of the present member with this key.
    pub fn find(&self, k: &str) -> Option<usize> {
        let mut i = 0;
        while i < MAXE {
            if i < self.n && !self.vals[i].is_absent() && self.keys[i].is(k) {
                return Some(i);
            }
            i += 1;
        }
        None
    }
    pub fn present(&self) -> usize {
        let mut c = 0;
        let mut i = 0;
        while i < MAXE {
            if i < self.n && !self.vals[i].is_absent() {
                c += 1;
            }
            i += 1;
        }
        c
    }
}

// ------------------------------------------------------------------------------------- errors

#[derive(Debug, Clone, Copy, PartialEq)]
pub struct TokErr;
impl Display for TokErr {
    fn fmt(&self, _f: &mut core::fmt::Formatter<'_>) -> core::fmt::Result {
        Ok(())
    }
}
impl core::error::Error for TokErr {}
impl de::Error for TokErr {
    fn custom<T: Display>(_msg: T) -> Self {
        TokErr
    }
}
impl ser::Error for TokErr {
    fn custom<T: Display>(_msg: T) -> Self {
        TokErr
    }
}

// --------------------------------------------------------------------------------- serializer

/// Serializer for a whole message: accepts a map or a struct and records it into a `MapTok`.
pub struct TopSer<'a>(pub &'a mut MapTok);

pub struct MapRec<'a> {
    out: &'a mut MapTok,
    key: Txt,
}

macro_rules! refuse {
    ($($f:ident($($t:ty),*) -> $r:ty;)*) => {
        $( fn $f(self $(, _: $t)*) -> Result<$r, TokErr> { Err(TokErr) } )*
    };
}

impl<'a> Serializer for TopSer<'a> {
    type Ok = ();
    type Error = TokErr;
    type SerializeSeq = Impossible<(), TokErr>;
    type SerializeTuple = Impossible<(), TokErr>;
    type SerializeTupleStruct = Impossible<(), TokErr>;
    type SerializeTupleVariant = Impossible<(), TokErr>;
    type SerializeMap = MapRec<'a>;
    type SerializeStruct = MapRec<'a>;
    type SerializeStructVariant = Impossible<(), TokErr>;

    fn serialize_map(self, _len: Option<usize>) -> Result<MapRec<'a>, TokErr> {
        Ok(MapRec { out: self.0, key: Txt::empty() })
    }
    fn serialize_struct(self, _n: &'static str, _len: usize) -> Result<MapRec<'a>, TokErr> {
        Ok(MapRec { out: self.0, key: Txt::empty() })
    }
    refuse! {
        serialize_bool(bool) -> (); serialize_i8(i8) -> (); serialize_i16(i16) -> ();
        serialize_i32(i32) -> (); serialize_i64(i64) -> (); serialize_u8(u8) -> ();
        serialize_u16(u16) -> (); serialize_u32(u32) -> (); serialize_u64(u64) -> ();
        serialize_f32(f32) -> (); serialize_f64(f64) -> (); serialize_char(char) -> ();
        serialize_str(&str) -> (); serialize_bytes(&[u8]) -> (); serialize_none() -> ();
        serialize_unit() -> (); serialize_unit_struct(&'static str) -> ();
        serialize_unit_variant(&'static str, u32, &'static str) -> ();
        serialize_seq(Option<usize>) -> Self::SerializeSeq;
        serialize_tuple(usize) -> Self::SerializeTuple;
        serialize_tuple_struct(&'static str, usize) -> Self::SerializeTupleStruct;
        serialize_tuple_variant(&'static str, u32, &'static str, usize) -> Self::SerializeTupleVariant;
        serialize_struct_variant(&'static str, u32, &'static str, usize) -> Self::SerializeStructVariant;
    }
    fn serialize_some<T: ?Sized + Serialize>(self, _: &T) -> Result<(), TokErr> {
        Err(TokErr)
    }
    fn serialize_newtype_struct<T: ?Sized + Serialize>(self, _: &'static str, _: &T) -> Result<(), TokErr> {
        Err(TokErr)
    }
    fn serialize_newtype_variant<T: ?Sized + Serialize>(
        self,
        _: &'static str,
        _: u32,
        _: &'static str,
        _: &T,
    ) -> Result<(), TokErr> {
        Err(TokErr)
    }
}

impl SerializeMap for MapRec<'_> {
    type Ok = ();
    type Error = TokErr;
    fn serialize_key<T: ?Sized + Serialize>(&mut self, key: &T) -> Result<(), TokErr> {
        self.key = key.serialize(TxtSer)?;
        Ok(())
    }
    fn serialize_value<T: ?Sized + Serialize>(&mut self, value: &T) -> Result<(), TokErr> {
        let v = value.serialize(ValSer)?;
        if self.out.n >= MAXE {
            return Err(TokErr);
        }
        self.out.keys[self.out.n] = self.key;
        self.out.vals[self.out.n] = v;
        self.out.n += 1;
        Ok(())
    }
    fn end(self) -> Result<(), TokErr> {
        Ok(())
    }
}

impl SerializeStruct for MapRec<'_> {
    type Ok = ();
    type Error = TokErr;
    fn serialize_field<T: ?Sized + Serialize>(&mut self, key: &'static str, value: &T) -> Result<(), TokErr> {
        SerializeMap::serialize_key(self, key)?;
        SerializeMap::serialize_value(self, value)
    }
    fn end(self) -> Result<(), TokErr> {
        Ok(())
    }
}

/// Serializer for keys and string leaves: strings only.
struct TxtSer;
impl Serializer for TxtSer {
    type Ok = Txt;
    type Error = TokErr;
    type SerializeSeq = Impossible<Txt, TokErr>;
    type SerializeTuple = Impossible<Txt, TokErr>;
    type SerializeTupleStruct = Impossible<Txt, TokErr>;
    type SerializeTupleVariant = Impossible<Txt, TokErr>;
    type SerializeMap = Impossible<Txt, TokErr>;
    type SerializeStruct = Impossible<Txt, TokErr>;
    type SerializeStructVariant = Impossible<Txt, TokErr>;
    fn serialize_str(self, v: &str) -> Result<Txt, TokErr> {
        if v.len() > TXT {
            return Err(TokErr);
        }
        Ok(Txt::new(v))
    }
    refuse! {
        serialize_bool(bool) -> Txt; serialize_i8(i8) -> Txt; serialize_i16(i16) -> Txt;
        serialize_i32(i32) -> Txt; serialize_i64(i64) -> Txt; serialize_u8(u8) -> Txt;
        serialize_u16(u16) -> Txt; serialize_u32(u32) -> Txt; serialize_u64(u64) -> Txt;
        serialize_f32(f32) -> Txt; serialize_f64(f64) -> Txt; serialize_char(char) -> Txt;
        serialize_bytes(&[u8]) -> Txt; serialize_none() -> Txt;
        serialize_unit() -> Txt; serialize_unit_struct(&'static str) -> Txt;
        serialize_unit_variant(&'static str, u32, &'static str) -> Txt;
        serialize_seq(Option<usize>) -> Self::SerializeSeq;
        serialize_tuple(usize) -> Self::SerializeTuple;
        serialize_tuple_struct(&'static str, usize) -> Self::SerializeTupleStruct;
        serialize_tuple_variant(&'static str, u32, &'static str, usize) -> Self::SerializeTupleVariant;
        serialize_map(Option<usize>) -> Self::SerializeMap;
        serialize_struct(&'static str, usize) -> Self::SerializeStruct;
        serialize_struct_variant(&'static str, u32, &'static str, usize) -> Self::SerializeStructVariant;
    }
    fn serialize_some<T: ?Sized + Serialize>(self, _: &T) -> Result<Txt, TokErr> {
        Err(TokErr)
    }
    fn serialize_newtype_struct<T: ?Sized + Serialize>(self, _: &'static str, _: &T) -> Result<Txt, TokErr> {
        Err(TokErr)
    }
    fn serialize_newtype_variant<T: ?Sized + Serialize>(
        self,
        _: &'static str,
        _: u32,
        _: &'static str,
        _: &T,
    ) -> Result<Txt, TokErr> {
        Err(TokErr)
    }
}

/// Serializer for member values: leaves and one level of object.
struct ValSer;
pub struct ObjRec {
    o: Obj,
    key: Txt,
}
impl Serializer for ValSer {
    type Ok = Val;
    type Error = TokErr;
    type SerializeSeq = Impossible<Val, TokErr>;
    type SerializeTuple = Impossible<Val, TokErr>;
    type SerializeTupleStruct = Impossible<Val, TokErr>;
    type SerializeTupleVariant = Impossible<Val, TokErr>;
    type SerializeMap = ObjRec;
    type SerializeStruct = ObjRec;
    type SerializeStructVariant = Impossible<Val, TokErr>;
    fn serialize_bool(self, v: bool) -> Result<Val, TokErr> {
        Ok(Val::Leaf(Leaf::Bool(v)))
    }
    fn serialize_u8(self, v: u8) -> Result<Val, TokErr> {
        Ok(Val::Leaf(Leaf::Num(v as u64)))
    }
    fn serialize_u16(self, v: u16) -> Result<Val, TokErr> {
        Ok(Val::Leaf(Leaf::Num(v as u64)))
    }
    fn serialize_u32(self, v: u32) -> Result<Val, TokErr> {
        Ok(Val::Leaf(Leaf::Num(v as u64)))
    }
    fn serialize_u64(self, v: u64) -> Result<Val, TokErr> {
        Ok(Val::Leaf(Leaf::Num(v)))
    }
    fn serialize_str(self, v: &str) -> Result<Val, TokErr> {
        if v.len() > TXT {
            return Err(TokErr);
        }
        Ok(Val::Leaf(Leaf::Str(Txt::new(v))))
    }
    fn serialize_none(self) -> Result<Val, TokErr> {
        Ok(Val::Leaf(Leaf::Null))
    }
    fn serialize_unit(self) -> Result<Val, TokErr> {
        Ok(Val::Leaf(Leaf::Null))
    }
    fn serialize_some<T: ?Sized + Serialize>(self, v: &T) -> Result<Val, TokErr> {
        v.serialize(self)
    }
    fn serialize_map(self, _len: Option<usize>) -> Result<ObjRec, TokErr> {
        Ok(ObjRec { o: Obj::empty(), key: Txt::empty() })
    }
    fn serialize_struct(self, _n: &'static str, _len: usize) -> Result<ObjRec, TokErr> {
        Ok(ObjRec { o: Obj::empty(), key: Txt::empty() })
    }
    refuse! {
        serialize_i8(i8) -> Val; serialize_i16(i16) -> Val;
        serialize_i32(i32) -> Val; serialize_i64(i64) -> Val;
        serialize_f32(f32) -> Val; serialize_f64(f64) -> Val; serialize_char(char) -> Val;
        serialize_bytes(&[u8]) -> Val; serialize_unit_struct(&'static str) -> Val;
        serialize_seq(Option<usize>) -> Self::SerializeSeq;
        serialize_tuple(usize) -> Self::SerializeTuple;
        serialize_tuple_struct(&'static str, usize) -> Self::SerializeTupleStruct;
        serialize_tuple_variant(&'static str, u32, &'static str, usize) -> Self::SerializeTupleVariant;
        serialize_struct_variant(&'static str, u32, &'static str, usize) -> Self::SerializeStructVariant;
    }
    // As serde_json: a unit variant is its name as a string.
    fn serialize_unit_variant(self, _: &'static str, _: u32, variant: &'static str) -> Result<Val, TokErr> {
        self.serialize_str(variant)
    }
    fn serialize_newtype_struct<T: ?Sized + Serialize>(self, _: &'static str, v: &T) -> Result<Val, TokErr> {
        v.serialize(self)
    }
    fn serialize_newtype_variant<T: ?Sized + Serialize>(
        self,
        _: &'static str,
        _: u32,
        _: &'static str,
        _: &T,
    ) -> Result<Val, TokErr> {
        Err(TokErr)
    }
}

impl SerializeMap for ObjRec {
    type Ok = Val;
    type Error = TokErr;
    fn serialize_key<T: ?Sized + Serialize>(&mut self, key: &T) -> Result<(), TokErr> {
        self.key = key.serialize(TxtSer)?;
        Ok(())
    }
    fn serialize_value<T: ?Sized + Serialize>(&mut self, value: &T) -> Result<(), TokErr> {
        let v = match value.serialize(ValSer)?.as_leaf() {
            Some(l) => *l,
            None => return Err(TokErr),
        };
        if self.o.n >= MAXF {
            return Err(TokErr);
        }
        self.o.keys[self.o.n] = self.key;
        self.o.vals[self.o.n] = v;
        self.o.n += 1;
        Ok(())
    }
    fn end(self) -> Result<Val, TokErr> {
        Ok(Val::Obj(self.o))
    }
}
impl SerializeStruct for ObjRec {
    type Ok = Val;
    type Error = TokErr;
    fn serialize_field<T: ?Sized + Serialize>(&mut self, key: &'static str, value: &T) -> Result<(), TokErr> {
        SerializeMap::serialize_key(self, key)?;
        SerializeMap::serialize_value(self, value)
    }
    fn end(self) -> Result<Val, TokErr> {
        Ok(Val::Obj(self.o))
    }
}

pub fn to_tokens<T: Serialize>(v: &T) -> Result<MapTok, TokErr> {
    let mut m = MapTok::empty();
    v.serialize(TopSer(&mut m))?;
    Ok(m)
}

// ------------------------------------------------------------------------------- deserializer
//
// Dispatch copied from serde_json::Deserializer (de.rs): which JSON value kinds each
// `deserialize_*` accepts and which `visit_*` it calls.

macro_rules! forward_any {
    ($($f:ident)*) => {
        $( fn $f<V: Visitor<'de>>(self, v: V) -> Result<V::Value, TokErr> { self.deserialize_any(v) } )*
    };
}

/// Deserializer over a whole object.
#[derive(Clone, Copy)]
pub struct MapDe<'de>(pub &'de MapTok);

struct MapAcc<'de> {
    m: &'de MapTok,
    i: usize,
    cur: usize,
}

impl<'de> Deserializer<'de> for MapDe<'de> {
    type Error = TokErr;
    fn deserialize_any<V: Visitor<'de>>(self, v: V) -> Result<V::Value, TokErr> {
        v.visit_map(MapAcc { m: self.0, i: 0, cur: 0 })
    }
    fn deserialize_option<V: Visitor<'de>>(self, v: V) -> Result<V::Value, TokErr> {
        v.visit_some(self)
    }
    fn deserialize_newtype_struct<V: Visitor<'de>>(self, _n: &'static str, v: V) -> Result<V::Value, TokErr> {
        v.visit_newtype_struct(self)
    }
    fn deserialize_struct<V: Visitor<'de>>(
        self,
        _n: &'static str,
        _f: &'static [&'static str],
        v: V,
    ) -> Result<V::Value, TokErr> {
        self.deserialize_any(v)
    }
    fn deserialize_enum<V: Visitor<'de>>(
        self,
        _n: &'static str,
        _vs: &'static [&'static str],
        _v: V,
    ) -> Result<V::Value, TokErr> {
        // `{"Variant": content}`: not used by any envelope type.
        Err(TokErr)
    }
    // A JSON object is not a bool / number / string / unit / sequence.
    fn deserialize_bool<V: Visitor<'de>>(self, _v: V) -> Result<V::Value, TokErr> { Err(TokErr) }
    fn deserialize_i8<V: Visitor<'de>>(self, _v: V) -> Result<V::Value, TokErr> { Err(TokErr) }
    fn deserialize_i16<V: Visitor<'de>>(self, _v: V) -> Result<V::Value, TokErr> { Err(TokErr) }
    fn deserialize_i32<V: Visitor<'de>>(self, _v: V) -> Result<V::Value, TokErr> { Err(TokErr) }
    fn deserialize_i64<V: Visitor<'de>>(self, _v: V) -> Result<V::Value, TokErr> { Err(TokErr) }
    fn deserialize_u8<V: Visitor<'de>>(self, _v: V) -> Result<V::Value, TokErr> { Err(TokErr) }
    fn deserialize_u16<V: Visitor<'de>>(self, _v: V) -> Result<V::Value, TokErr> { Err(TokErr) }
    fn deserialize_u32<V: Visitor<'de>>(self, _v: V) -> Result<V::Value, TokErr> { Err(TokErr) }
    fn deserialize_u64<V: Visitor<'de>>(self, _v: V) -> Result<V::Value, TokErr> { Err(TokErr) }
    fn deserialize_f32<V: Visitor<'de>>(self, _v: V) -> Result<V::Value, TokErr> { Err(TokErr) }
    fn deserialize_f64<V: Visitor<'de>>(self, _v: V) -> Result<V::Value, TokErr> { Err(TokErr) }
    fn deserialize_char<V: Visitor<'de>>(self, _v: V) -> Result<V::Value, TokErr> { Err(TokErr) }
    fn deserialize_str<V: Visitor<'de>>(self, _v: V) -> Result<V::Value, TokErr> { Err(TokErr) }
    fn deserialize_string<V: Visitor<'de>>(self, _v: V) -> Result<V::Value, TokErr> { Err(TokErr) }
    fn deserialize_bytes<V: Visitor<'de>>(self, _v: V) -> Result<V::Value, TokErr> { Err(TokErr) }
    fn deserialize_byte_buf<V: Visitor<'de>>(self, _v: V) -> Result<V::Value, TokErr> { Err(TokErr) }
    fn deserialize_unit<V: Visitor<'de>>(self, _v: V) -> Result<V::Value, TokErr> { Err(TokErr) }
    fn deserialize_unit_struct<V: Visitor<'de>>(self, _n: &'static str, _v: V) -> Result<V::Value, TokErr> { Err(TokErr) }
    fn deserialize_seq<V: Visitor<'de>>(self, _v: V) -> Result<V::Value, TokErr> { Err(TokErr) }
    fn deserialize_tuple<V: Visitor<'de>>(self, _l: usize, _v: V) -> Result<V::Value, TokErr> { Err(TokErr) }
    fn deserialize_tuple_struct<V: Visitor<'de>>(self, _n: &'static str, _l: usize, _v: V) -> Result<V::Value, TokErr> { Err(TokErr) }
    forward_any! { deserialize_map deserialize_identifier deserialize_ignored_any }
}

impl<'de> MapAccess<'de> for MapAcc<'de> {
    type Error = TokErr;
    fn next_key_seed<K: DeserializeSeed<'de>>(&mut self, seed: K) -> Result<Option<K::Value>, TokErr> {
        if self.i >= self.m.n || self.i >= MAXE {
            return Ok(None);
        }
        let found = self.i;
        self.cur = found;
        self.i = found + 1;
        seed.deserialize(StrDe(self.m.keys[found].as_str())).map(Some)
    }
    fn next_value_seed<S: DeserializeSeed<'de>>(&mut self, seed: S) -> Result<S::Value, TokErr> {
        let v = &self.m.vals[self.cur];
        match v.kind {
            V_LEAF => seed.deserialize(LeafDe(&v.leaf)),
            V_OBJ => seed.deserialize(ObjDe(&v.obj)),
            _ => Err(TokErr),
        }
    }
}

/// A JSON string (member keys and string leaves).
#[derive(Clone, Copy)]
struct StrDe<'de>(&'de str);
impl<'de> Deserializer<'de> for StrDe<'de> {
    type Error = TokErr;
    fn deserialize_any<V: Visitor<'de>>(self, v: V) -> Result<V::Value, TokErr> {
        v.visit_borrowed_str(self.0)
    }
    fn deserialize_option<V: Visitor<'de>>(self, v: V) -> Result<V::Value, TokErr> {
        v.visit_some(self)
    }
    fn deserialize_newtype_struct<V: Visitor<'de>>(self, _n: &'static str, v: V) -> Result<V::Value, TokErr> {
        v.visit_newtype_struct(self)
    }
    fn deserialize_enum<V: Visitor<'de>>(
        self,
        _n: &'static str,
        _vs: &'static [&'static str],
        v: V,
    ) -> Result<V::Value, TokErr> {
        v.visit_enum(self.0.into_deserializer())
    }
    fn deserialize_bool<V: Visitor<'de>>(self, _v: V) -> Result<V::Value, TokErr> { Err(TokErr) }
    fn deserialize_i8<V: Visitor<'de>>(self, _v: V) -> Result<V::Value, TokErr> { Err(TokErr) }
    fn deserialize_i16<V: Visitor<'de>>(self, _v: V) -> Result<V::Value, TokErr> { Err(TokErr) }
    fn deserialize_i32<V: Visitor<'de>>(self, _v: V) -> Result<V::Value, TokErr> { Err(TokErr) }
    fn deserialize_i64<V: Visitor<'de>>(self, _v: V) -> Result<V::Value, TokErr> { Err(TokErr) }
    fn deserialize_u8<V: Visitor<'de>>(self, _v: V) -> Result<V::Value, TokErr> { Err(TokErr) }
    fn deserialize_u16<V: Visitor<'de>>(self, _v: V) -> Result<V::Value, TokErr> { Err(TokErr) }
    fn deserialize_u32<V: Visitor<'de>>(self, _v: V) -> Result<V::Value, TokErr> { Err(TokErr) }
    fn deserialize_u64<V: Visitor<'de>>(self, _v: V) -> Result<V::Value, TokErr> { Err(TokErr) }
    fn deserialize_f32<V: Visitor<'de>>(self, _v: V) -> Result<V::Value, TokErr> { Err(TokErr) }
    fn deserialize_f64<V: Visitor<'de>>(self, _v: V) -> Result<V::Value, TokErr> { Err(TokErr) }
    fn deserialize_unit<V: Visitor<'de>>(self, _v: V) -> Result<V::Value, TokErr> { Err(TokErr) }
    fn deserialize_unit_struct<V: Visitor<'de>>(self, _n: &'static str, _v: V) -> Result<V::Value, TokErr> { Err(TokErr) }
    fn deserialize_seq<V: Visitor<'de>>(self, _v: V) -> Result<V::Value, TokErr> { Err(TokErr) }
    fn deserialize_tuple<V: Visitor<'de>>(self, _l: usize, _v: V) -> Result<V::Value, TokErr> { Err(TokErr) }
    fn deserialize_tuple_struct<V: Visitor<'de>>(self, _n: &'static str, _l: usize, _v: V) -> Result<V::Value, TokErr> { Err(TokErr) }
    fn deserialize_map<V: Visitor<'de>>(self, _v: V) -> Result<V::Value, TokErr> { Err(TokErr) }
    fn deserialize_struct<V: Visitor<'de>>(self, _n: &'static str, _f: &'static [&'static str], _v: V) -> Result<V::Value, TokErr> { Err(TokErr) }
    forward_any! { deserialize_char deserialize_str deserialize_string deserialize_bytes deserialize_byte_buf
                   deserialize_identifier deserialize_ignored_any }
}

/// A scalar JSON value.
#[derive(Clone, Copy)]
struct LeafDe<'de>(&'de Leaf);
impl<'de> LeafDe<'de> {
    fn num<V: Visitor<'de>>(self, v: V) -> Result<V::Value, TokErr> {
        if self.0.kind == K_NUM {
            v.visit_u64(self.0.n)
        } else {
            Err(TokErr)
        }
    }
    fn string<V: Visitor<'de>>(self, v: V) -> Result<V::Value, TokErr> {
        if self.0.kind == K_STR {
            v.visit_borrowed_str(self.0.s.as_str())
        } else {
            Err(TokErr)
        }
    }
    fn unit<V: Visitor<'de>>(self, v: V) -> Result<V::Value, TokErr> {
        if self.0.kind == K_NULL {
            v.visit_unit()
        } else {
            Err(TokErr)
        }
    }
}
impl<'de> Deserializer<'de> for LeafDe<'de> {
    type Error = TokErr;
    fn deserialize_any<V: Visitor<'de>>(self, v: V) -> Result<V::Value, TokErr> {
        match self.0.kind {
            K_NULL => v.visit_unit(),
            K_BOOL => v.visit_bool(self.0.b),
            K_NUM => v.visit_u64(self.0.n),
            _ => v.visit_borrowed_str(self.0.s.as_str()),
        }
    }
    fn deserialize_bool<V: Visitor<'de>>(self, v: V) -> Result<V::Value, TokErr> {
        if self.0.kind == K_BOOL {
            v.visit_bool(self.0.b)
        } else {
            Err(TokErr)
        }
    }
    fn deserialize_option<V: Visitor<'de>>(self, v: V) -> Result<V::Value, TokErr> {
        if self.0.kind == K_NULL {
            v.visit_none()
        } else {
            v.visit_some(self)
        }
    }
    fn deserialize_newtype_struct<V: Visitor<'de>>(self, _n: &'static str, v: V) -> Result<V::Value, TokErr> {
        v.visit_newtype_struct(self)
    }
    fn deserialize_enum<V: Visitor<'de>>(
        self,
        _n: &'static str,
        _vs: &'static [&'static str],
        v: V,
    ) -> Result<V::Value, TokErr> {
        if self.0.kind == K_STR {
            v.visit_enum(self.0.s.as_str().into_deserializer())
        } else {
            Err(TokErr)
        }
    }
    fn deserialize_i8<V: Visitor<'de>>(self, v: V) -> Result<V::Value, TokErr> { self.num(v) }
    fn deserialize_i16<V: Visitor<'de>>(self, v: V) -> Result<V::Value, TokErr> { self.num(v) }
    fn deserialize_i32<V: Visitor<'de>>(self, v: V) -> Result<V::Value, TokErr> { self.num(v) }
    fn deserialize_i64<V: Visitor<'de>>(self, v: V) -> Result<V::Value, TokErr> { self.num(v) }
    fn deserialize_u8<V: Visitor<'de>>(self, v: V) -> Result<V::Value, TokErr> { self.num(v) }
    fn deserialize_u16<V: Visitor<'de>>(self, v: V) -> Result<V::Value, TokErr> { self.num(v) }
    fn deserialize_u32<V: Visitor<'de>>(self, v: V) -> Result<V::Value, TokErr> { self.num(v) }
    fn deserialize_u64<V: Visitor<'de>>(self, v: V) -> Result<V::Value, TokErr> { self.num(v) }
    fn deserialize_f32<V: Visitor<'de>>(self, v: V) -> Result<V::Value, TokErr> { self.num(v) }
    fn deserialize_f64<V: Visitor<'de>>(self, v: V) -> Result<V::Value, TokErr> { self.num(v) }
    fn deserialize_char<V: Visitor<'de>>(self, v: V) -> Result<V::Value, TokErr> { self.string(v) }
    fn deserialize_str<V: Visitor<'de>>(self, v: V) -> Result<V::Value, TokErr> { self.string(v) }
    fn deserialize_string<V: Visitor<'de>>(self, v: V) -> Result<V::Value, TokErr> { self.string(v) }
    fn deserialize_identifier<V: Visitor<'de>>(self, v: V) -> Result<V::Value, TokErr> { self.string(v) }
    fn deserialize_bytes<V: Visitor<'de>>(self, v: V) -> Result<V::Value, TokErr> { self.string(v) }
    fn deserialize_byte_buf<V: Visitor<'de>>(self, v: V) -> Result<V::Value, TokErr> { self.string(v) }
    fn deserialize_unit<V: Visitor<'de>>(self, v: V) -> Result<V::Value, TokErr> { self.unit(v) }
    fn deserialize_unit_struct<V: Visitor<'de>>(self, _n: &'static str, v: V) -> Result<V::Value, TokErr> { self.unit(v) }
    fn deserialize_seq<V: Visitor<'de>>(self, _v: V) -> Result<V::Value, TokErr> { Err(TokErr) }
    fn deserialize_tuple<V: Visitor<'de>>(self, _l: usize, _v: V) -> Result<V::Value, TokErr> { Err(TokErr) }
    fn deserialize_tuple_struct<V: Visitor<'de>>(self, _n: &'static str, _l: usize, _v: V) -> Result<V::Value, TokErr> { Err(TokErr) }
    fn deserialize_map<V: Visitor<'de>>(self, _v: V) -> Result<V::Value, TokErr> { Err(TokErr) }
    fn deserialize_struct<V: Visitor<'de>>(self, _n: &'static str, _f: &'static [&'static str], _v: V) -> Result<V::Value, TokErr> { Err(TokErr) }
    fn deserialize_ignored_any<V: Visitor<'de>>(self, v: V) -> Result<V::Value, TokErr> { v.visit_unit() }
}

/// A nested JSON object of scalars.
#[derive(Clone, Copy)]
struct ObjDe<'de>(&'de Obj);
struct ObjAcc<'de> {
    o: &'de Obj,
    i: usize,
}
impl<'de> Deserializer<'de> for ObjDe<'de> {
    type Error = TokErr;
    fn deserialize_any<V: Visitor<'de>>(self, v: V) -> Result<V::Value, TokErr> {
        v.visit_map(ObjAcc { o: self.0, i: 0 })
    }
    fn deserialize_option<V: Visitor<'de>>(self, v: V) -> Result<V::Value, TokErr> {
        v.visit_some(self)
    }
    fn deserialize_newtype_struct<V: Visitor<'de>>(self, _n: &'static str, v: V) -> Result<V::Value, TokErr> {
        v.visit_newtype_struct(self)
    }
    fn deserialize_struct<V: Visitor<'de>>(
        self,
        _n: &'static str,
        _f: &'static [&'static str],
        v: V,
    ) -> Result<V::Value, TokErr> {
        self.deserialize_any(v)
    }
    fn deserialize_enum<V: Visitor<'de>>(
        self,
        _n: &'static str,
        _vs: &'static [&'static str],
        _v: V,
    ) -> Result<V::Value, TokErr> {
        Err(TokErr)
    }
    fn deserialize_ignored_any<V: Visitor<'de>>(self, v: V) -> Result<V::Value, TokErr> {
        v.visit_unit()
    }
    fn deserialize_bool<V: Visitor<'de>>(self, _v: V) -> Result<V::Value, TokErr> { Err(TokErr) }
    fn deserialize_i8<V: Visitor<'de>>(self, _v: V) -> Result<V::Value, TokErr> { Err(TokErr) }
    fn deserialize_i16<V: Visitor<'de>>(self, _v: V) -> Result<V::Value, TokErr> { Err(TokErr) }
    fn deserialize_i32<V: Visitor<'de>>(self, _v: V) -> Result<V::Value, TokErr> { Err(TokErr) }
    fn deserialize_i64<V: Visitor<'de>>(self, _v: V) -> Result<V::Value, TokErr> { Err(TokErr) }
    fn deserialize_u8<V: Visitor<'de>>(self, _v: V) -> Result<V::Value, TokErr> { Err(TokErr) }
    fn deserialize_u16<V: Visitor<'de>>(self, _v: V) -> Result<V::Value, TokErr> { Err(TokErr) }
    fn deserialize_u32<V: Visitor<'de>>(self, _v: V) -> Result<V::Value, TokErr> { Err(TokErr) }
    fn deserialize_u64<V: Visitor<'de>>(self, _v: V) -> Result<V::Value, TokErr> { Err(TokErr) }
    fn deserialize_f32<V: Visitor<'de>>(self, _v: V) -> Result<V::Value, TokErr> { Err(TokErr) }
    fn deserialize_f64<V: Visitor<'de>>(self, _v: V) -> Result<V::Value, TokErr> { Err(TokErr) }
    fn deserialize_char<V: Visitor<'de>>(self, _v: V) -> Result<V::Value, TokErr> { Err(TokErr) }
    fn deserialize_str<V: Visitor<'de>>(self, _v: V) -> Result<V::Value, TokErr> { Err(TokErr) }
    fn deserialize_string<V: Visitor<'de>>(self, _v: V) -> Result<V::Value, TokErr> { Err(TokErr) }
    fn deserialize_bytes<V: Visitor<'de>>(self, _v: V) -> Result<V::Value, TokErr> { Err(TokErr) }
    fn deserialize_byte_buf<V: Visitor<'de>>(self, _v: V) -> Result<V::Value, TokErr> { Err(TokErr) }
    fn deserialize_unit<V: Visitor<'de>>(self, _v: V) -> Result<V::Value, TokErr> { Err(TokErr) }
    fn deserialize_unit_struct<V: Visitor<'de>>(self, _n: &'static str, _v: V) -> Result<V::Value, TokErr> { Err(TokErr) }
    fn deserialize_seq<V: Visitor<'de>>(self, _v: V) -> Result<V::Value, TokErr> { Err(TokErr) }
    fn deserialize_tuple<V: Visitor<'de>>(self, _l: usize, _v: V) -> Result<V::Value, TokErr> { Err(TokErr) }
    fn deserialize_tuple_struct<V: Visitor<'de>>(self, _n: &'static str, _l: usize, _v: V) -> Result<V::Value, TokErr> { Err(TokErr) }
    forward_any! { deserialize_map deserialize_identifier }
}
impl<'de> MapAccess<'de> for ObjAcc<'de> {
    type Error = TokErr;
    fn next_key_seed<K: DeserializeSeed<'de>>(&mut self, seed: K) -> Result<Option<K::Value>, TokErr> {
        if self.i >= self.o.n || self.i >= MAXF {
            return Ok(None);
        }
        let k = self.i;
        self.i += 1;
        seed.deserialize(StrDe(self.o.keys[k].as_str())).map(Some)
    }
    fn next_value_seed<S: DeserializeSeed<'de>>(&mut self, seed: S) -> Result<S::Value, TokErr> {
        seed.deserialize(LeafDe(&self.o.vals[self.i - 1]))
    }
}

pub fn from_tokens<'de, T: serde::Deserialize<'de>>(m: &'de MapTok) -> Result<T, TokErr> {
    T::deserialize(MapDe(m))
}

// ------------------------------------------------------------------------- JSON text (native)

#[cfg(not(kani))]
fn leaf_json(l: &Leaf, out: &mut String) {
    match l.kind {
        K_NULL => out.push_str("null"),
        K_BOOL => out.push_str(if l.b { "true" } else { "false" }),
        K_NUM => out.push_str(&l.n.to_string()),
        _ => out.push_str(&serde_json::to_string(l.s.as_str()).unwrap()),
    }
}

/// The JSON text this token tree stands for (native cross-check of the dispatch model).
#[cfg(not(kani))]
pub fn to_json(m: &MapTok) -> String {
    let mut out = String::from("{");
    let mut first = true;
    for i in 0..m.n {
        if m.vals[i].is_absent() {
            continue;
        }
        if !first {
            out.push(',');
        }
        first = false;
        out.push_str(&serde_json::to_string(m.keys[i].as_str()).unwrap());
        out.push(':');
        match m.vals[i].kind {
            V_LEAF => leaf_json(&m.vals[i].leaf, &mut out),
            _ => {
                let o = &m.vals[i].obj;
                out.push('{');
                for j in 0..o.n {
                    if j > 0 {
                        out.push(',');
                    }
                    out.push_str(&serde_json::to_string(o.keys[j].as_str()).unwrap());
                    out.push(':');
                    leaf_json(&o.vals[j], &mut out);
                }
                out.push('}');
            }
        }
    }
    out.push('}');
    out
}
