//! C02 — outbound framing: one JSON document plus one NUL per message, in order.
//! (The `limit_out` assertions of C17 live in the same bodies: refusal iff the message cannot
//! fit under the limit, and then nothing is sent.)

use crate::{
    cover,
    exec::poll_once,
    refjson::Doc,
    sock::{CaptureWrite, CAP},
    Nd,
};
use core::task::Poll;
use serde::{ser::SerializeMap, Serialize};
use zlink_core::{
    connection::{verif::{BUFFER_SIZE as STEP, MAX_BUFFER_SIZE as MAX}, WriteConnection},
    Call, Reply,
};

pub const FILL: u8 = 0xAA;
pub const DOCMAX: usize = 48;

/// Method type with no members: a call is `{}` plus the flags that are set.
#[derive(Debug, Serialize, Clone, Copy)]
pub struct Empty {}

/// A value whose map key is a bool: must be refused.
#[derive(Debug)]
pub struct BadKey;
impl Serialize for BadKey {
    fn serialize<S: serde::Serializer>(&self, s: S) -> Result<S::Ok, S::Error> {
        let mut m = s.serialize_map(Some(1))?;
        m.serialize_entry(&true, &1u8)?;
        m.end()
    }
}

fn wc(len: usize, pos: usize) -> WriteConnection<CaptureWrite> {
    let mut buffer = vec![FILL; len];
    // Bytes behind `pos` are scratch; give them another value so that a missing terminator or a
    // missing document byte cannot be masked by left-overs.
    let mut i = pos;
    while i < len {
        buffer[i] = 0x55;
        i += 1;
    }
    WriteConnection::verif_from_parts(CaptureWrite::new(), buffer, pos, 7)
}

/// Expected document for `Call<Empty>` with the given flags.
pub fn expect_call(oneway: bool, more: bool, upgrade: bool) -> Doc<DOCMAX> {
    let mut d = Doc::new();
    d.push(b'{');
    let mut first = true;
    if oneway {
        d.lit(b"\"oneway\":true");
        first = false;
    }
    if more {
        if !first {
            d.push(b',');
        }
        d.lit(b"\"more\":true");
        first = false;
    }
    if upgrade {
        if !first {
            d.push(b',');
        }
        d.lit(b"\"upgrade\":true");
    }
    d.push(b'}');
    d
}

/// Expected document for `Reply<()>` without parameters and the given `continues`.
pub fn expect_reply_unit(continues: Option<bool>) -> Doc<DOCMAX> {
    let mut d = Doc::new();
    match continues {
        None => d.lit(b"{}"),
        Some(true) => d.lit(b"{\"continues\":true}"),
        Some(false) => d.lit(b"{\"continues\":false}"),
    }
    d
}

/// Expected document for `Reply<&str>` = `{"parameters":"<escaped>"}`.
pub fn expect_reply_str(s: &[u8; 3], len: usize) -> Doc<DOCMAX> {
    let mut d = Doc::new();
    d.lit(b"{\"parameters\":");
    d.json_str(s, len);
    d.push(b'}');
    d
}

fn is_overflow(e: &zlink_core::Error) -> bool {
    matches!(e, zlink_core::Error::BufferOverflow)
}

/// Post-condition of one enqueue from the concrete state (LEN, POS) for the expected document.
fn check_enqueue<const LEN: usize, const POS: usize>(
    nd: &mut Nd,
    conn: &WriteConnection<CaptureWrite>,
    res: zlink_core::Result<()>,
    doc: &Doc<DOCMAX>,
) {
    let (buf, pos) = conn.verif_parts();
    let n = doc.n;
    let fits = POS + n + 1 <= MAX;
    match res {
        Ok(()) => {
            assert!(fits, "C17.out_message_beyond_limit_is_refused");
            assert!(pos == POS + n + 1, "C02.position_advances_by_document_plus_terminator");
            assert!(buf.len() >= pos && buf.len() <= MAX, "C17.out_buffer_stays_within_limit");
            let mut i = 0;
            while i < DOCMAX {
                if i < n {
                    assert!(buf[POS + i] == doc.b[i], "C02.document_bytes_exact");
                }
                i += 1;
            }
            assert!(buf[POS + n] == 0, "C02.exactly_one_nul_after_document");
        }
        Err(e) => {
            let overflow = is_overflow(&e);
            core::mem::forget(e);
            assert!(overflow, "C02.only_overflow_can_refuse_a_serializable_message");
            assert!(!fits, "C17.out_message_within_limit_is_accepted");
            assert!(pos == POS, "C02.refused_message_contributes_no_bytes");
            assert!(buf.len() <= MAX, "C17.out_buffer_stays_within_limit");
        }
    }
    // Whatever happened, what was enqueued before is untouched.
    let mut i = 0;
    while i < POS {
        assert!(buf[i] == FILL, "C02.earlier_messages_untouched");
        i += 1;
    }
    // One witness per instance (each satisfied cover costs a solver call on the whole formula):
    // the most demanding branch this geometry can reach.
    if POS + 2 <= LEN && POS + 42 >= LEN && LEN < MAX {
        cover!(nd, fits && POS + n == LEN, "document ends exactly at the buffer end");
    } else if POS + 19 + 1 > MAX {
        cover!(nd, !fits, "message does not fit under the limit");
    } else {
        cover!(nd, fits, "message accepted");
    }
}

/// `enqueue_call` of `Call<Empty>` with symbolic flags.
pub fn enqueue_call_at<const LEN: usize, const POS: usize>(nd: &mut Nd) {
    let (oneway, more, upgrade) = (nd.bool(), nd.bool(), nd.bool());
    let mut conn = wc(LEN, POS);
    let call = Call::new(Empty {}).set_oneway(oneway).set_more(more).set_upgrade(upgrade);
    let res = conn.enqueue_call(&call);
    let doc = expect_call(oneway, more, upgrade);
    check_enqueue::<LEN, POS>(nd, &conn, res, &doc);
    core::mem::forget(conn);
}

/// The private `enqueue` (what `send_reply`/`send_error` use) with `Reply<()>`, symbolic
/// `continues`.
pub fn enqueue_reply_at<const LEN: usize, const POS: usize>(nd: &mut Nd) {
    let c = nd.below(3);
    let continues = match c {
        0 => None,
        1 => Some(true),
        _ => Some(false),
    };
    let mut conn = wc(LEN, POS);
    let reply: Reply<()> = Reply::new(None).set_continues(continues);
    let res = conn.verif_enqueue(&reply);
    let doc = expect_reply_unit(continues);
    check_enqueue::<LEN, POS>(nd, &conn, res, &doc);
    core::mem::forget(conn);
}

/// A message whose size is fixed by the instance (`Reply<()>` with CONT: 0 = no `continues`, 2 bytes;
/// 1 = `true`, 18 bytes; 2 = `false`, 19 bytes), enqueued behind POS bytes of *arbitrary* earlier
/// content. With nothing symbolic in the geometry the formula stays small whatever the growth code
/// does, so these instances also decide changes that make the general `enqueue_reply_at` instances
/// run out of memory; they are chosen so that the document ends exactly at the buffer end, one byte
/// before it, and one byte after it.
pub fn enqueue_fixed_at<const LEN: usize, const POS: usize, const CONT: usize>(nd: &mut Nd) {
    let continues = match CONT {
        0 => None,
        1 => Some(true),
        _ => Some(false),
    };
    let mut buffer = vec![0x55u8; LEN];
    let mut earlier = [0u8; 40];
    let mut i = 0;
    while i < POS {
        earlier[i] = nd.u8();
        buffer[i] = earlier[i];
        i += 1;
    }
    let mut conn = WriteConnection::verif_from_parts(CaptureWrite::new(), buffer, POS, 7);
    let reply: Reply<()> = Reply::new(None).set_continues(continues);
    let res = conn.verif_enqueue(&reply);
    let doc = expect_reply_unit(continues);
    let n = doc.n;
    let fits = POS + n + 1 <= MAX;
    let (buf, pos) = conn.verif_parts();
    match res {
        Ok(()) => {
            assert!(fits, "C17.out_message_beyond_limit_is_refused");
            assert!(pos == POS + n + 1, "C02.position_advances_by_document_plus_terminator");
            let mut ok = buf.len() >= pos && buf.len() <= MAX && buf.len() % STEP == 0;
            let mut i = 0;
            while i < DOCMAX {
                if ok && i < n && buf[POS + i] != doc.b[i] {
                    ok = false;
                }
                i += 1;
            }
            assert!(ok, "C02.document_bytes_exact");
            assert!(buf[POS + n] == 0, "C02.exactly_one_nul_after_document");
        }
        Err(e) => {
            let overflow = is_overflow(&e);
            core::mem::forget(e);
            assert!(overflow && !fits, "C17.out_message_within_limit_is_accepted");
            assert!(pos == POS, "C02.refused_message_contributes_no_bytes");
        }
    }
    let mut same = true;
    let mut i = 0;
    while i < POS {
        if buf[i] != earlier[i] {
            same = false;
        }
        i += 1;
    }
    assert!(same, "C02.earlier_messages_untouched");
    cover!(nd, POS == 0 || earlier[0] != 0x55, "earlier content arbitrary");
    core::mem::forget(conn);
}

/// `Reply<&str>` with a one-character symbolic ASCII string (the document length is symbolic:
/// 19, 20 or 24 bytes depending on how the character is escaped).
pub fn enqueue_str_at<const LEN: usize, const POS: usize>(nd: &mut Nd) {
    let bytes = [nd.ascii(), 0, 0];
    let len = 1;
    let mut conn = wc(LEN, POS);
    let s = crate::nd::str_of(&bytes[..len]);
    let reply: Reply<&str> = Reply::new(Some(s));
    let res = conn.verif_enqueue(&reply);
    let doc = expect_reply_str(&bytes, len);
    check_enqueue::<LEN, POS>(nd, &conn, res, &doc);
    core::mem::forget(conn);
}

/// A value that cannot be serialized is refused, contributes nothing, and the connection stays
/// usable: a following good message is framed as usual.
pub fn enqueue_refused_at<const LEN: usize, const POS: usize>(nd: &mut Nd) {
    let mut conn = wc(LEN, POS);
    let res = conn.verif_enqueue(&BadKey);
    match res {
        Ok(()) => panic!("C02.unserializable_value_is_refused"),
        Err(e) => {
            let json = matches!(e, zlink_core::Error::Json(_));
            let overflow = is_overflow(&e);
            core::mem::forget(e);
            // Either the serializer refuses the key, or the buffer was too small to even get
            // that far and could not grow.
            assert!(json || (overflow && POS == MAX), "C02.unserializable_value_is_refused");
        }
    }
    {
        let (buf, pos) = conn.verif_parts();
        assert!(pos == POS, "C02.refused_message_contributes_no_bytes");
        let mut i = 0;
        while i < POS {
            assert!(buf[i] == FILL, "C02.earlier_messages_untouched");
            i += 1;
        }
    }
    // Still usable.
    let c = nd.below(3);
    let continues = match c {
        0 => None,
        1 => Some(true),
        _ => Some(false),
    };
    let reply: Reply<()> = Reply::new(None).set_continues(continues);
    let res = conn.verif_enqueue(&reply);
    let doc = expect_reply_unit(continues);
    let (_, len_now) = (0, conn.verif_parts().0.len());
    let _ = len_now;
    check_enqueue_after::<POS>(nd, &conn, res, &doc);
    core::mem::forget(conn);
}

/// Same post-condition as `check_enqueue` but without the cover witnesses that refer to LEN
/// (the buffer may already have grown during the refused attempt).
fn check_enqueue_after<const POS: usize>(
    _nd: &mut Nd,
    conn: &WriteConnection<CaptureWrite>,
    res: zlink_core::Result<()>,
    doc: &Doc<DOCMAX>,
) {
    let (buf, pos) = conn.verif_parts();
    let n = doc.n;
    let fits = POS + n + 1 <= MAX;
    match res {
        Ok(()) => {
            assert!(fits, "C17.out_message_beyond_limit_is_refused");
            assert!(pos == POS + n + 1, "C02.position_advances_by_document_plus_terminator");
            let mut i = 0;
            while i < DOCMAX {
                if i < n {
                    assert!(buf[POS + i] == doc.b[i], "C02.document_bytes_exact");
                }
                i += 1;
            }
            assert!(buf[POS + n] == 0, "C02.exactly_one_nul_after_document");
        }
        Err(e) => {
            let overflow = is_overflow(&e);
            core::mem::forget(e);
            assert!(overflow && !fits, "C02.connection_usable_after_refusal");
            assert!(pos == POS, "C02.refused_message_contributes_no_bytes");
        }
    }
    let mut i = 0;
    while i < POS {
        assert!(buf[i] == FILL, "C02.earlier_messages_untouched");
        i += 1;
    }
}

/// `flush`: nothing enqueued ⇒ no write; otherwise exactly one write of exactly the filled
/// prefix, after which the position is 0. A failing write reports the error.
pub fn flush_at<const LEN: usize, const POS: usize>(nd: &mut Nd) {
    let mut conn = wc(LEN, POS);
    // symbolic content of the filled prefix
    let fail = nd.bool();
    let pend = nd.below(2);
    {
        let w = conn.verif_write_half_mut();
        w.fail_at = if fail { Some(0) } else { None };
        w.pend = pend;
    }
    let res = {
        let fut = conn.flush();
        let mut fut = core::pin::pin!(fut);
        let mut r = poll_once(fut.as_mut());
        if r.is_pending() {
            r = poll_once(fut.as_mut());
        }
        r
    };
    let res = match res {
        Poll::Ready(r) => r,
        Poll::Pending => panic!("C02.flush_completes_when_transport_does"),
    };
    let (_, pos) = conn.verif_parts();
    let w = conn.write_half();
    if POS == 0 {
        assert!(w.writes == 0, "C02.flush_with_nothing_enqueued_writes_nothing");
        assert!(res.is_ok(), "C02.flush_with_nothing_enqueued_writes_nothing");
    } else {
        assert!(w.writes == 1, "C02.everything_enqueued_goes_out_in_one_write");
        if fail {
            assert!(res.is_err(), "C02.write_error_is_reported");
        } else {
            assert!(res.is_ok(), "C02.flush_succeeds_when_write_does");
            assert!(w.lens[0] == POS, "C02.flush_writes_exactly_the_filled_prefix");
            let mut i = 0;
            while i < CAP {
                if i < POS {
                    assert!(w.data[0][i] == FILL, "C02.flush_writes_exactly_the_filled_prefix");
                }
                i += 1;
            }
            assert!(pos == 0, "C02.position_reset_after_flush");
        }
    }
    if POS > 0 {
        cover!(nd, !fail && pend == 1, "flush completed after a Pending");
    }
    core::mem::forget(res);
    core::mem::forget(conn);
}

/// `send_reply`/`send_call`/`send_error` = enqueue then one write of old bytes + new frame.
pub fn send_at<const LEN: usize, const POS: usize>(nd: &mut Nd) {
    send_kind_at::<LEN, POS, 3>(nd)
}

/// The same with the entry point fixed by the instance (KIND 0 = send_call, 1 = send_reply,
/// 2 = send_error; 3 = symbolic choice): one coroutine type per formula.
pub fn send_kind_at<const LEN: usize, const POS: usize, const KIND: usize>(nd: &mut Nd) {
    let which = if KIND < 3 { KIND } else { nd.below(3) };
    let (a, b, c) = (nd.bool(), nd.bool(), nd.bool());
    let mut conn = wc(LEN, POS);
    let (res, doc) = match which {
        0 => {
            let call = Call::new(Empty {}).set_oneway(a).set_more(b).set_upgrade(c);
            let fut = conn.send_call(&call);
            let mut fut = core::pin::pin!(fut);
            (poll_once(fut.as_mut()), expect_call(a, b, c))
        }
        1 => {
            let continues = if a { Some(b) } else { None };
            let reply: Reply<()> = Reply::new(None).set_continues(continues);
            let fut = conn.send_reply(&reply);
            let mut fut = core::pin::pin!(fut);
            (poll_once(fut.as_mut()), expect_reply_unit(continues))
        }
        _ => {
            // An "error" is any serializable value that encodes the whole reply object.
            let fut = conn.send_error(&Empty {});
            let mut fut = core::pin::pin!(fut);
            (poll_once(fut.as_mut()), expect_call(false, false, false))
        }
    };
    let res = match res {
        Poll::Ready(r) => r,
        Poll::Pending => panic!("C02.send_completes_when_transport_does"),
    };
    let n = doc.n;
    let fits = POS + n + 1 <= MAX;
    let (_, pos) = conn.verif_parts();
    let w = conn.write_half();
    match res {
        Ok(()) => {
            assert!(fits, "C17.out_message_beyond_limit_is_refused");
            assert!(w.writes == 1, "C02.everything_enqueued_goes_out_in_one_write");
            assert!(w.lens[0] == POS + n + 1, "C02.send_writes_old_bytes_then_new_frame");
            let mut i = 0;
            while i < CAP {
                if i < POS {
                    assert!(w.data[0][i] == FILL, "C02.send_writes_old_bytes_then_new_frame");
                } else if i < POS + n {
                    assert!(w.data[0][i] == doc.b[i - POS], "C02.document_bytes_exact");
                } else if i == POS + n {
                    assert!(w.data[0][i] == 0, "C02.exactly_one_nul_after_document");
                }
                i += 1;
            }
            assert!(pos == 0, "C02.position_reset_after_flush");
        }
        Err(e) => {
            let overflow = is_overflow(&e);
            core::mem::forget(e);
            assert!(overflow && !fits, "C17.out_message_within_limit_is_accepted");
            assert!(w.writes == 0, "C17.refused_message_sends_nothing");
            assert!(pos == POS, "C02.refused_message_contributes_no_bytes");
        }
    }
    if KIND == 0 || KIND == 3 {
        if POS + 27 + 1 <= MAX {
            cover!(nd, fits && which == 0 && a && b, "call with two flags sent");
        } else {
            cover!(nd, !fits, "send refused: does not fit");
        }
    } else {
        cover!(nd, fits == (POS + n + 1 <= MAX), "send decided");
    }
    core::mem::forget(conn);
}

/// A fresh connection starts in the state the induction starts from.
pub fn write_init(_nd: &mut Nd) {
    use crate::sock::ScriptSocket;
    let (_r, w) = zlink_core::Connection::new(ScriptSocket::idle()).split();
    let (buf, pos) = w.verif_parts();
    assert!(pos == 0, "C02.fresh_connection_has_nothing_enqueued");
    assert!(buf.len() == STEP && buf.len() <= MAX, "C02.fresh_connection_buffer");
    core::mem::forget(w);
}
