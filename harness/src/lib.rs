//! Kani harnesses for the zlink properties (see /verif/DESIGN.md).
//!
//! Every harness body is an ordinary function `fn(&mut Nd)`; the `harnesses!` macro wraps it in a
//! `#[kani::proof]` for the solver and registers it by name for the native replay binary.

pub mod exec;
pub mod nd;
pub mod stubs;

pub use nd::Nd;

/// `harnesses! { name: unwind => path::to::body, ... }` (all stubs of DESIGN.md section 4), or
/// with a leading `nofmt` (formatting machinery left real: C14).
#[macro_export]
macro_rules! harnesses {
    ($( $name:ident : $unwind:literal => $body:path ),* $(,)?) => {
        #[cfg(kani)]
        pub mod k {
        $(
            #[kani::proof]
            #[kani::unwind($unwind)]
            #[kani::stub(core::fmt::write, $crate::stubs::fmt_write)]
            #[kani::stub(alloc::fmt::format, $crate::stubs::fmt_format)]
            #[kani::stub(tracing_core::metadata::LevelFilter::current, $crate::stubs::level_off)]
            #[kani::stub(serde_json::error::parse_line_col, $crate::stubs::parse_line_col)]
            pub fn $name() {
                let mut nd = $crate::Nd::new();
                $body(&mut nd);
            }
        )*
        }
        #[cfg(not(kani))]
        pub const LIST: &[(&str, fn(&mut $crate::Nd))] = &[
            $( (stringify!($name), $body as fn(&mut $crate::Nd)) ),*
        ];
    };
    (ryu $( $name:ident : $unwind:literal => $body:path ),* $(,)?) => {
        #[cfg(kani)]
        pub mod k {
        $(
            #[kani::proof]
            #[kani::unwind($unwind)]
            #[kani::stub(core::fmt::write, $crate::stubs::fmt_write)]
            #[kani::stub(alloc::fmt::format, $crate::stubs::fmt_format)]
            #[kani::stub(tracing_core::metadata::LevelFilter::current, $crate::stubs::level_off)]
            #[kani::stub(serde_json::error::parse_line_col, $crate::stubs::parse_line_col)]
            #[kani::stub(ryu::Buffer::format_finite, $crate::stubs::ryu_format_finite)]
            pub fn $name() {
                let mut nd = $crate::Nd::new();
                $body(&mut nd);
            }
        )*
        }
        #[cfg(not(kani))]
        pub const LIST: &[(&str, fn(&mut $crate::Nd))] = &[
            $( (stringify!($name), $body as fn(&mut $crate::Nd)) ),*
        ];
    };
    (norealloc $( $name:ident : $unwind:literal => $body:path ),* $(,)?) => {
        #[cfg(kani)]
        pub mod k {
        $(
            #[kani::proof]
            #[kani::unwind($unwind)]
            #[kani::stub(core::fmt::write, $crate::stubs::fmt_write)]
            #[kani::stub(alloc::fmt::format, $crate::stubs::fmt_format)]
            #[kani::stub(tracing_core::metadata::LevelFilter::current, $crate::stubs::level_off)]
            #[kani::stub(serde_json::error::parse_line_col, $crate::stubs::parse_line_col)]
            #[kani::stub(alloc::alloc::realloc, $crate::stubs::no_realloc)]
            pub fn $name() {
                let mut nd = $crate::Nd::new();
                $body(&mut nd);
            }
        )*
        }
        #[cfg(not(kani))]
        pub const LIST: &[(&str, fn(&mut $crate::Nd))] = &[
            $( (stringify!($name), $body as fn(&mut $crate::Nd)) ),*
        ];
    };
    (pit $( $name:ident : $unwind:literal => $body:path ),* $(,)?) => {
        #[cfg(kani)]
        pub mod k {
        $(
            #[kani::proof]
            #[kani::unwind($unwind)]
            #[kani::stub(core::fmt::write, $crate::stubs::fmt_write)]
            #[kani::stub(alloc::fmt::format, $crate::stubs::fmt_format)]
            #[kani::stub(tracing_core::metadata::LevelFilter::current, $crate::stubs::level_off)]
            #[kani::stub(serde_json::error::parse_line_col, $crate::stubs::parse_line_col)]
            #[kani::stub(serde_json::de::Deserializer::peek_invalid_type, $crate::stubs::peek_invalid_type)]
            pub fn $name() {
                let mut nd = $crate::Nd::new();
                $body(&mut nd);
            }
        )*
        }
        #[cfg(not(kani))]
        pub const LIST: &[(&str, fn(&mut $crate::Nd))] = &[
            $( (stringify!($name), $body as fn(&mut $crate::Nd)) ),*
        ];
    };
    (idl $( $name:ident : $unwind:literal => $body:path ),* $(,)?) => {
        #[cfg(kani)]
        pub mod k {
        $(
            #[kani::proof]
            #[kani::unwind($unwind)]
            #[kani::stub(core::fmt::write, $crate::stubs::fmt_write)]
            #[kani::stub(alloc::fmt::format, $crate::stubs::fmt_format)]
            #[kani::stub(tracing_core::metadata::LevelFilter::current, $crate::stubs::level_off)]
            #[kani::stub(serde_json::error::parse_line_col, $crate::stubs::parse_line_col)]
            #[kani::stub(core::str::from_utf8, $crate::stubs::from_utf8_ascii)]
            pub fn $name() {
                let mut nd = $crate::Nd::new();
                $body(&mut nd);
            }
        )*
        }
        #[cfg(not(kani))]
        pub const LIST: &[(&str, fn(&mut $crate::Nd))] = &[
            $( (stringify!($name), $body as fn(&mut $crate::Nd)) ),*
        ];
    };
    (nofmt $( $name:ident : $unwind:literal => $body:path ),* $(,)?) => {
        #[cfg(kani)]
        pub mod k {
        $(
            #[kani::proof]
            #[kani::unwind($unwind)]
            #[kani::stub(tracing_core::metadata::LevelFilter::current, $crate::stubs::level_off)]
            pub fn $name() {
                let mut nd = $crate::Nd::new();
                $body(&mut nd);
            }
        )*
        }
        #[cfg(not(kani))]
        pub const LIST: &[(&str, fn(&mut $crate::Nd))] = &[
            $( (stringify!($name), $body as fn(&mut $crate::Nd)) ),*
        ];
    };
}

pub mod sock;
pub mod refjson;
pub mod p01;
pub mod p02;
pub mod p03;
pub mod tok;
pub mod p04;
pub mod p05;
pub mod p12;
pub mod p06;
pub mod p11;
pub mod p13;
pub mod p17;
pub mod p18;

pub mod gen;
#[cfg(not(kani))]
pub use gen::registry;
