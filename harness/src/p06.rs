//! C06 — a chain's reply stream yields exactly the replies its calls are owed.

use crate::{
    cover,
    sock::ScriptRead,
    Nd,
};
use core::{
    cell::Cell,
    future::Future,
    pin::Pin,
    task::{Context, Poll},
};
use futures_util::stream::Stream;
use serde::Deserialize;
use zlink_core::{
    connection::{chain::ReplyStream, verif::BUFFER_SIZE as RSTEP, ReadConnection},
    reply, Reply,
};

#[derive(Debug, Deserialize, PartialEq)]
pub struct MethodErr {
    pub code: u8,
}

type Item = zlink_core::Result<reply::Result<u8, MethodErr>>;

// Item kinds a conforming (or failing) peer can produce for one receive.
const K_CONT: usize = 0; // reply with continues = Some(true)
const K_FINAL_NONE: usize = 1; // reply without continues
const K_FINAL_FALSE: usize = 2; // reply with continues = Some(false)
const K_METHOD_ERR: usize = 3; // method error reply
const K_TRANSPORT: usize = 4; // transport / decode error

fn make_item(kind: usize, tag: u8) -> Item {
    match kind {
        K_CONT => Ok(Ok(Reply::new(Some(tag)).set_continues(Some(true)))),
        K_FINAL_NONE => Ok(Ok(Reply::new(Some(tag)))),
        K_FINAL_FALSE => Ok(Ok(Reply::new(Some(tag)).set_continues(Some(false)))),
        K_METHOD_ERR => Ok(Err(MethodErr { code: tag })),
        _ => Err(zlink_core::Error::SocketRead),
    }
}

/// A receive future that is pending `pend` times, then yields its item.
struct Recv {
    pend: usize,
    // The item is built only when the future completes, so that the future itself has no drop
    // glue (R5).
    kind: usize,
    tag: u8,
    done: bool,
    polls: *const Cell<usize>,
}

impl Future for Recv {
    type Output = Item;
    fn poll(self: Pin<&mut Self>, cx: &mut Context<'_>) -> Poll<Item> {
        let this = unsafe { self.get_unchecked_mut() };
        unsafe { (*this.polls).set((*this.polls).get() + 1) };
        if this.pend > 0 {
            this.pend -= 1;
            cx.waker().wake_by_ref();
            return Poll::Pending;
        }
        assert!(!this.done, "receive future polled after completion");
        this.done = true;
        Poll::Ready(make_item(this.kind, this.tag))
    }
}

const MAX_ITEMS: usize = 6;

/// Real `ReplyStream` with a symbolic number of owed replies and a symbolic script of receive
/// outcomes. `PEND`: whether receive futures may return `Pending` first.
pub fn stream_counts<const MAXC: usize, const PEND: bool>(nd: &mut Nd) {
    let call_count = nd.below(MAXC + 1);
    // The connection holds a frame of a later exchange, already buffered behind what was consumed,
    // in a buffer that has grown beyond one step: whatever the stream does on its own account
    // (the receive function of this harness never touches the connection) must leave it there.
    let mut pre = vec![0x41u8; 2 * RSTEP];
    pre[RSTEP / 2 - 1] = 0;
    pre[RSTEP + 1] = 0;
    pre[RSTEP + 2] = 0;
    let (pre_rp, pre_mp) = (RSTEP + 2, RSTEP / 2);
    let mut rc = ReadConnection::verif_from_parts(ScriptRead::idle(), pre, pre_rp, pre_mp, 3);

    let mut kinds = [0usize; MAX_ITEMS];
    let mut pends = [0usize; MAX_ITEMS];
    let mut i = 0;
    while i < MAX_ITEMS {
        kinds[i] = nd.below(5);
        pends[i] = if PEND { nd.below(2) } else { 0 };
        i += 1;
    }
    let invoked = Cell::new(0usize);
    let fut_polls = Cell::new(0usize);
    let fut_polls_ptr: *const Cell<usize> = &fut_polls;
    let f = |_conn: &mut ReadConnection<ScriptRead>| {
        let k = invoked.get();
        invoked.set(k + 1);
        let (kind, pend) = if k < MAX_ITEMS { (kinds[k], pends[k]) } else { (K_TRANSPORT, 0) };
        Recv {
            pend,
            kind,
            tag: k as u8,
            done: false,
            polls: fut_polls_ptr,
        }
    };
    let mut owed = call_count;
    let mut broken = false; // a transport/decode error was yielded
    let mut ended = false;
    let mut yielded = 0usize;
    let mut waiting = false; // a receive future is in flight (returned Pending)
    {
    let stream = ReplyStream::new(&mut rc, f, call_count);
    let mut stream = core::pin::pin!(stream);
    let mut p = 0;
    let max_polls = if PEND { 2 * MAX_ITEMS + 2 } else { MAX_ITEMS + 2 };
    while p < max_polls {
        let before = invoked.get();
        let mut cx = Context::from_waker(core::task::Waker::noop());
        let r = stream.as_mut().poll_next(&mut cx);
        let created = invoked.get() - before;
        if ended {
            // Polling an ended stream keeps reporting the end and touches nothing.
            let still_ended = matches!(r, Poll::Ready(None));
            core::mem::forget(r);
            assert!(still_ended, "C06.ended_stream_stays_ended");
            assert!(created == 0, "C06.no_receive_after_end");
            break;
        }
        // A receive is started only while a reply is still owed, and only one at a time.
        if created > 0 {
            assert!(created == 1, "C06.one_receive_per_poll");
            assert!(!waiting, "C06.receive_not_restarted_while_pending");
            assert!(owed > 0 && !broken, "C06.no_receive_when_no_reply_is_owed");
        }
        match r {
            Poll::Pending => {
                assert!(PEND, "C06.pending_only_if_receive_pending");
                waiting = true;
            }
            Poll::Ready(None) => {
                assert!(created == 0, "C06.no_receive_when_no_reply_is_owed");
                assert!(owed == 0 || broken, "C06.stream_ends_only_when_all_owed_replies_arrived");
                ended = true;
            }
            Poll::Ready(Some(item)) => {
                waiting = false;
                assert!(owed > 0 && !broken, "C06.no_item_beyond_owed_replies");
                // The item is the one the receive produced, in order.
                let k = yielded;
                if k >= MAX_ITEMS {
                    // Bound of this harness reached (continuing replies can go on for ever).
                    core::mem::forget(item);
                    break;
                }
                let kind = kinds[k];
                match item {
                    Ok(Ok(rep)) => {
                        assert!(kind <= K_FINAL_FALSE, "C06.item_kind_preserved");
                        assert!(rep.parameters() == Some(&(k as u8)), "C06.items_in_order");
                        if kind != K_CONT {
                            owed -= 1;
                        }
                    }
                    Ok(Err(e)) => {
                        assert!(kind == K_METHOD_ERR, "C06.item_kind_preserved");
                        assert!(e.code == k as u8, "C06.items_in_order");
                        owed -= 1;
                    }
                    Err(e) => {
                        // R5: the drop glue of zlink_core::Error (io::Error, serde_json::Error, ...)
                        // costs more than the check.
                        core::mem::forget(e);
                        assert!(kind == K_TRANSPORT, "C06.item_kind_preserved");
                        broken = true;
                    }
                }
                yielded += 1;
            }
        }
        p += 1;
    }
    }
    {
        let (buf, rp, mp) = rc.verif_parts();
        assert!(rp == pre_rp && mp == pre_mp && buf.len() == 2 * RSTEP, "C06.stream_leaves_frames_of_later_exchanges_in_place");
        let mut same = true;
        let mut k = 0;
        while k < 2 * RSTEP {
            let want = if k == RSTEP / 2 - 1 || k == RSTEP + 1 || k == RSTEP + 2 { 0 } else { 0x41 };
            if buf[k] != want {
                same = false;
            }
            k += 1;
        }
        assert!(same, "C06.stream_leaves_frames_of_later_exchanges_in_place");
        assert!(rc.read_half().calls == 0, "C06.stream_reads_only_through_its_receive_function");
    }
    cover!(nd, ended && yielded == MAX_ITEMS.min(4) && !broken, "stream ended after 4 items without error");
    cover!(nd, ended && broken, "stream ended after a transport error");
    cover!(nd, ended && call_count == 0, "all-oneway chain: nothing owed");
    if PEND {
        cover!(nd, fut_polls.get() > yielded && yielded > 0, "an item arrived after a Pending");
    }
}

// ------------------------------------------------------------------------------------------
// Chain bookkeeping: the real `Connection::chain_call` / `Chain::append` / `Chain::send`.

use crate::p02::{expect_call, Empty};
use crate::p12::{PSock, WCAP};
use zlink_core::Call;

#[derive(Debug, Deserialize, PartialEq)]
pub struct NoErr {}

fn flags_of(bits: usize) -> (bool, bool) {
    (bits & 1 != 0, bits & 2 != 0)
}

fn call_with(oneway: bool, more: bool) -> Call<Empty> {
    Call::new(Empty {}).set_oneway(oneway).set_more(more)
}

/// A chain of N calls (N <= 3) on a fresh connection: the flags (oneway, more) of the first N-1
/// calls are fixed by the instance (PFX, two bits per call) so that every document starts at a
/// concrete offset (R1); the flags of the last call are symbolic. The chain must have enqueued
/// exactly the N documents, in order, each followed by one NUL, and must expect one reply per
/// call that is not oneway. With SEND, `send()` is then polled once: it completes with exactly one
/// write carrying exactly those bytes and has not touched the read side.
pub fn chain_counts<const N: usize, const PFX: usize, const SEND: bool>(nd: &mut Nd) {
    let last_oneway = nd.bool();
    let last_more = nd.bool();
    let mut c = crate::p12::conn();
    let mut want = crate::refjson::Doc::<WCAP>::new();
    let mut owed = 0usize;
    let mut calls = [call_with(false, false), call_with(false, false), call_with(false, false)];
    let mut i = 0;
    while i < N {
        let (ow, mo) = if i + 1 == N { (last_oneway, last_more) } else { flags_of(PFX >> (2 * i)) };
        calls[i] = call_with(ow, mo);
        let d = expect_call(ow, mo, false);
        let mut j = 0;
        while j < crate::p02::DOCMAX {
            if j < d.n {
                want.push(d.b[j]);
            }
            j += 1;
        }
        want.push(0);
        if !ow {
            owed += 1;
        }
        i += 1;
    }
    {
        let chain = match c.chain_call::<Empty, u8, NoErr>(&calls[0]) {
            Ok(ch) => ch,
            Err(e) => {
                core::mem::forget(e);
                panic!("C06.chain_start_accepted");
            }
        };
        let chain = if N >= 2 {
            match chain.append(&calls[1]) {
                Ok(ch) => ch,
                Err(e) => {
                    core::mem::forget(e);
                    panic!("C06.chain_append_accepted");
                }
            }
        } else {
            chain
        };
        let chain = if N >= 3 {
            match chain.append(&calls[2]) {
                Ok(ch) => ch,
                Err(e) => {
                    core::mem::forget(e);
                    panic!("C06.chain_append_accepted");
                }
            }
        } else {
            chain
        };
        let (ncalls, nreplies) = chain.verif_counts();
        assert!(ncalls == N, "C06.chain_counts_every_call");
        assert!(nreplies == owed, "C06.one_reply_expected_per_call_that_is_not_oneway");
        if SEND {
            let fut = chain.send();
            let mut fut = core::pin::pin!(fut);
            match crate::exec::poll_once(fut.as_mut()) {
                Poll::Ready(Ok(stream)) => {
                    // (polling the stream would start receive_reply, a further 3-deep nest: out of reach)
                    core::mem::forget(stream);
                }
                Poll::Ready(Err(e)) => {
                    core::mem::forget(e);
                    panic!("C06.send_succeeds_on_a_writable_transport");
                }
                Poll::Pending => panic!("C06.send_completes_when_the_write_completes"),
            }
        } else {
            core::mem::forget(chain);
        }
    }
    if SEND {
        let w = c.write().write_half();
        assert!(w.writes == 1, "C06.all_calls_in_one_write");
        assert!(w.len == want.n, "C06.the_write_carries_exactly_the_chain");
        let mut same = true;
        let mut k = 0;
        while k < WCAP {
            if k < want.n && w.data[k] != want.b[k] {
                same = false;
            }
            k += 1;
        }
        assert!(same, "C06.calls_on_the_wire_in_chain_order");
        assert!(c.read().read_half().calls == 0, "C06.send_itself_receives_nothing");
    } else {
        let (buf, pos) = c.write().verif_parts();
        assert!(pos == want.n, "C06.chain_enqueues_exactly_its_calls");
        let mut same = true;
        let mut k = 0;
        while k < WCAP {
            if k < want.n && k < buf.len() && buf[k] != want.b[k] {
                same = false;
            }
            k += 1;
        }
        assert!(same, "C06.calls_on_the_wire_in_chain_order");
    }
    // (reachable only when every call fixed by the instance is oneway)
    let mut prefix_owed = 0;
    let mut i = 0;
    while i + 1 < N {
        if !flags_of(PFX >> (2 * i)).0 {
            prefix_owed += 1;
        }
        i += 1;
    }
    if prefix_owed == 0 {
        cover!(nd, owed == 0, "chain of oneway calls only");
    }
    cover!(nd, last_more && !last_oneway, "last call streams");
    core::mem::forget(c);
}

/// The end of a stream leaves the connection alone: a stream owed N final replies (N = 0 or 1, fixed
/// by the instance) is polled to its end over a connection that already holds a frame of a later
/// exchange (arbitrary non-NUL bytes, in a buffer that has grown beyond one step). The receive
/// function of the harness never touches the connection, so whatever happens to its cursors or
/// bytes is the stream's own doing: nothing may.
pub fn stream_end_keeps_frames<const N: usize>(nd: &mut Nd) {
    let mut pre = vec![0x41u8; 2 * RSTEP];
    let mut k = RSTEP / 2;
    while k < RSTEP + 1 {
        let b = nd.u8();
        nd.assume(b != 0);
        pre[k] = b;
        k += 1;
    }
    pre[RSTEP / 2 - 1] = 0;
    pre[RSTEP + 1] = 0;
    pre[RSTEP + 2] = 0;
    let mut before = [0u8; 64];
    let mut k = 0;
    while k < 2 * RSTEP {
        before[k] = pre[k];
        k += 1;
    }
    let (pre_rp, pre_mp) = (RSTEP + 2, RSTEP / 2);
    let mut rc = ReadConnection::verif_from_parts(ScriptRead::idle(), pre, pre_rp, pre_mp, 3);
    let fut_polls = Cell::new(0usize);
    let fut_polls_ptr: *const Cell<usize> = &fut_polls;
    let invoked = Cell::new(0usize);
    let tag = nd.u8();
    let f = |_conn: &mut ReadConnection<ScriptRead>| {
        invoked.set(invoked.get() + 1);
        Recv { pend: 0, kind: K_FINAL_NONE, tag, done: false, polls: fut_polls_ptr }
    };
    let mut items = 0usize;
    let mut ended = false;
    {
        let stream = ReplyStream::new(&mut rc, f, N);
        let mut stream = core::pin::pin!(stream);
        let mut p = 0;
        while p < N + 1 {
            let mut cx = Context::from_waker(core::task::Waker::noop());
            match stream.as_mut().poll_next(&mut cx) {
                Poll::Ready(None) => ended = true,
                Poll::Ready(Some(item)) => {
                    items += 1;
                    core::mem::forget(item);
                }
                Poll::Pending => {}
            }
            p += 1;
        }
    }
    assert!(items == N && ended, "C06.stream_ends_only_when_all_owed_replies_arrived");
    assert!(invoked.get() == N, "C06.no_receive_when_no_reply_is_owed");
    let (buf, rp, mp) = rc.verif_parts();
    let mut same = rp == pre_rp && mp == pre_mp && buf.len() == 2 * RSTEP;
    let mut k = 0;
    while k < 2 * RSTEP {
        if same && buf[k] != before[k] {
            same = false;
        }
        k += 1;
    }
    assert!(same, "C06.stream_leaves_frames_of_later_exchanges_in_place");
    cover!(nd, ended, "stream polled to its end");
    core::mem::forget(rc);
}
