//! C06 — a chain's reply stream yields exactly the replies its calls are owed.

use crate::{
    cover,
    sock::{ScriptRead, ScriptSocket},
    Nd,
};
use core::{
    cell::Cell,
    future::Future,
    pin::Pin,
    task::{Context, Poll},
};
use futures_util::stream::Stream;
use serde::Deserialize;
use zlink_core::{
    connection::{chain::ReplyStream, ReadConnection},
    reply, Connection, Reply,
};

#[derive(Debug, Deserialize, PartialEq)]
pub struct MethodErr {
    pub code: u8,
}

type Item = zlink_core::Result<reply::Result<u8, MethodErr>>;

// Item kinds a conforming (or failing) peer can produce for one receive.
const K_CONT: usize = 0; // reply with continues = Some(true)
const K_FINAL_NONE: usize = 1; // reply without continues
const K_FINAL_FALSE: usize = 2; // reply with continues = Some(false)
const K_METHOD_ERR: usize = 3; // method error reply
const K_TRANSPORT: usize = 4; // transport / decode error

fn make_item(kind: usize, tag: u8) -> Item {
    match kind {
        K_CONT => Ok(Ok(Reply::new(Some(tag)).set_continues(Some(true)))),
        K_FINAL_NONE => Ok(Ok(Reply::new(Some(tag)))),
        K_FINAL_FALSE => Ok(Ok(Reply::new(Some(tag)).set_continues(Some(false)))),
        K_METHOD_ERR => Ok(Err(MethodErr { code: tag })),
        _ => Err(zlink_core::Error::SocketRead),
    }
}

/// A receive future that is pending `pend` times, then yields its item.
struct Recv {
    pend: usize,
    // The item is built only when the future completes, so that the future itself has no drop
    // glue (R5).
    kind: usize,
    tag: u8,
    done: bool,
    polls: *const Cell<usize>,
}

impl Future for Recv {
    type Output = Item;
    fn poll(self: Pin<&mut Self>, cx: &mut Context<'_>) -> Poll<Item> {
        let this = unsafe { self.get_unchecked_mut() };
        unsafe { (*this.polls).set((*this.polls).get() + 1) };
        if this.pend > 0 {
            this.pend -= 1;
            cx.waker().wake_by_ref();
            return Poll::Pending;
        }
        assert!(!this.done, "receive future polled after completion");
        this.done = true;
        Poll::Ready(make_item(this.kind, this.tag))
    }
}

const MAX_ITEMS: usize = 6;

/// Real `ReplyStream` with a symbolic number of owed replies and a symbolic script of receive
/// outcomes. `PEND`: whether receive futures may return `Pending` first.
pub fn stream_counts<const MAXC: usize, const PEND: bool>(nd: &mut Nd) {
    let call_count = nd.below(MAXC + 1);
    let (mut rc, _w) = Connection::new(ScriptSocket::idle()).split();

    let mut kinds = [0usize; MAX_ITEMS];
    let mut pends = [0usize; MAX_ITEMS];
    let mut i = 0;
    while i < MAX_ITEMS {
        kinds[i] = nd.below(5);
        pends[i] = if PEND { nd.below(2) } else { 0 };
        i += 1;
    }
    let invoked = Cell::new(0usize);
    let fut_polls = Cell::new(0usize);
    let fut_polls_ptr: *const Cell<usize> = &fut_polls;
    let f = |_conn: &mut ReadConnection<ScriptRead>| {
        let k = invoked.get();
        invoked.set(k + 1);
        let (kind, pend) = if k < MAX_ITEMS { (kinds[k], pends[k]) } else { (K_TRANSPORT, 0) };
        Recv {
            pend,
            kind,
            tag: k as u8,
            done: false,
            polls: fut_polls_ptr,
        }
    };
    let stream = ReplyStream::new(&mut rc, f, call_count);
    let mut stream = core::pin::pin!(stream);

    let mut owed = call_count;
    let mut broken = false; // a transport/decode error was yielded
    let mut ended = false;
    let mut yielded = 0usize;
    let mut waiting = false; // a receive future is in flight (returned Pending)
    let mut p = 0;
    let max_polls = if PEND { 2 * MAX_ITEMS + 2 } else { MAX_ITEMS + 2 };
    while p < max_polls {
        let before = invoked.get();
        let mut cx = Context::from_waker(core::task::Waker::noop());
        let r = stream.as_mut().poll_next(&mut cx);
        let created = invoked.get() - before;
        if ended {
            // Polling an ended stream keeps reporting the end and touches nothing.
            let still_ended = matches!(r, Poll::Ready(None));
            core::mem::forget(r);
            assert!(still_ended, "C06.ended_stream_stays_ended");
            assert!(created == 0, "C06.no_receive_after_end");
            break;
        }
        // A receive is started only while a reply is still owed, and only one at a time.
        if created > 0 {
            assert!(created == 1, "C06.one_receive_per_poll");
            assert!(!waiting, "C06.receive_not_restarted_while_pending");
            assert!(owed > 0 && !broken, "C06.no_receive_when_no_reply_is_owed");
        }
        match r {
            Poll::Pending => {
                assert!(PEND, "C06.pending_only_if_receive_pending");
                waiting = true;
            }
            Poll::Ready(None) => {
                assert!(created == 0, "C06.no_receive_when_no_reply_is_owed");
                assert!(owed == 0 || broken, "C06.stream_ends_only_when_all_owed_replies_arrived");
                ended = true;
            }
            Poll::Ready(Some(item)) => {
                waiting = false;
                assert!(owed > 0 && !broken, "C06.no_item_beyond_owed_replies");
                // The item is the one the receive produced, in order.
                let k = yielded;
                if k >= MAX_ITEMS {
                    // Bound of this harness reached (continuing replies can go on for ever).
                    core::mem::forget(item);
                    break;
                }
                let kind = kinds[k];
                match item {
                    Ok(Ok(rep)) => {
                        assert!(kind <= K_FINAL_FALSE, "C06.item_kind_preserved");
                        assert!(rep.parameters() == Some(&(k as u8)), "C06.items_in_order");
                        if kind != K_CONT {
                            owed -= 1;
                        }
                    }
                    Ok(Err(e)) => {
                        assert!(kind == K_METHOD_ERR, "C06.item_kind_preserved");
                        assert!(e.code == k as u8, "C06.items_in_order");
                        owed -= 1;
                    }
                    Err(e) => {
                        // R5: the drop glue of zlink_core::Error (io::Error, serde_json::Error, ...)
                        // costs more than the check.
                        core::mem::forget(e);
                        assert!(kind == K_TRANSPORT, "C06.item_kind_preserved");
                        broken = true;
                    }
                }
                yielded += 1;
            }
        }
        p += 1;
    }
    cover!(nd, ended && yielded == MAX_ITEMS.min(4) && !broken, "stream ended after 4 items without error");
    cover!(nd, ended && broken, "stream ended after a transport error");
    cover!(nd, ended && call_count == 0, "all-oneway chain: nothing owed");
    if PEND {
        cover!(nd, fut_polls.get() > yielded && yielded > 0, "an item arrived after a Pending");
    }
}
