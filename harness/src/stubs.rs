//! Stub bodies for `#[kani::stub]` (DESIGN.md section 4). Every one of these is part of every
//! claim whose harness lists it.

#![allow(dead_code)]

pub fn fmt_write(_out: &mut dyn core::fmt::Write, _args: core::fmt::Arguments<'_>) -> core::fmt::Result {
    Ok(())
}

pub fn fmt_format(_args: core::fmt::Arguments<'_>) -> String {
    String::new()
}

pub fn parse_line_col(_msg: &mut String) -> Option<(usize, usize)> {
    None
}

pub fn level_off() -> tracing_core::metadata::LevelFilter {
    tracing_core::metadata::LevelFilter::OFF
}

/// Texts the `ryu::Buffer::format_finite` stub can return (C03 finite-float harnesses): both
/// encoders call the same third-party function on the same value, so within one harness run it
/// returns one text, chosen by the harness.
pub const RYU_TEXTS: [&str; 6] = ["0.0", "-0.0", "1.5", "-2.5e-7", "1e16", "3.4028235e38"];
static mut RYU_CHOICE: usize = 0;

pub fn set_ryu_choice(i: usize) {
    unsafe { RYU_CHOICE = i % RYU_TEXTS.len() };
}

#[cfg(kani)]
pub fn ryu_format_finite<F: ryu::Float>(_b: &mut ryu::Buffer, _f: F) -> &str {
    RYU_TEXTS[unsafe { RYU_CHOICE }]
}

/// `alloc::alloc::realloc` for the inbound harnesses: the receive buffer is created with its
/// final capacity (`MAX + 2·STEP`), so growing it never reallocates; a path that would reallocate
/// is outside the bound and cut. (A reallocation of symbolic size made CBMC's encoding explode.)
#[cfg(kani)]
pub unsafe fn no_realloc(_ptr: *mut u8, _layout: core::alloc::Layout, _new_size: usize) -> *mut u8 {
    kani::assume(false);
    core::ptr::null_mut()
}

/// Experimental (DESIGN 12.10): `serde_json::Deserializer::peek_invalid_type` builds the "invalid
/// type: found X, expected Y" error by *parsing* the offending value (numbers through the f64
/// path) - only the error text depends on it. The stub returns a plain JSON error instead.
#[cfg(kani)]
pub fn peek_invalid_type<'de, R: serde_json::de::Read<'de>>(
    _d: &mut serde_json::Deserializer<R>,
    _exp: &dyn serde::de::Expected,
) -> serde_json::Error {
    <serde_json::Error as serde::de::Error>::custom("")
}

/// `core::str::from_utf8` for the IDL harnesses, whose inputs are ASCII by construction (every
/// symbolic byte is assumed < 0x80, corpus texts are ASCII): validation cannot fail, and the real
/// validator's word-at-a-time path depends on pointer alignment, which is nondeterministic under
/// CBMC (hundreds of loop unrollings per call, 12.4).
pub fn from_utf8_ascii(v: &[u8]) -> Result<&str, core::str::Utf8Error> {
    Ok(unsafe { core::str::from_utf8_unchecked(v) })
}
