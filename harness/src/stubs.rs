//! Stub bodies for `#[kani::stub]` (DESIGN.md section 4). Every one of these is part of every
//! claim whose harness lists it.

#![allow(dead_code)]

pub fn fmt_write(_out: &mut dyn core::fmt::Write, _args: core::fmt::Arguments<'_>) -> core::fmt::Result {
    Ok(())
}

pub fn fmt_format(_args: core::fmt::Arguments<'_>) -> String {
    String::new()
}

pub fn parse_line_col(_msg: &mut String) -> Option<(usize, usize)> {
    None
}

pub fn level_off() -> tracing_core::metadata::LevelFilter {
    tracing_core::metadata::LevelFilter::OFF
}
