//! Source of nondeterminism shared by the Kani proofs and the native replay.
//!
//! Under Kani every primitive is a `kani::any()` of an unsigned integer type; natively the same
//! sequence of calls consumes the byte vectors of a counterexample script (the format Kani's
//! concrete playback prints: one little-endian byte vector per `kani::any()` call, in call
//! order). Only unsigned integers are drawn, everything else is derived with `assume`, so the
//! native interpretation of a script is exact.

#[cfg(not(kani))]
use std::collections::VecDeque;

/// Marker payload used natively when a script violates an assumption.
#[derive(Debug)]
pub struct Rejected;

pub struct Nd {
    #[cfg(not(kani))]
    script: VecDeque<Vec<u8>>,
    #[cfg(not(kani))]
    pub covered: Vec<&'static str>,
    #[cfg(not(kani))]
    pub drawn: usize,
    /// Native smoke mode: draws come from a xorshift generator instead of a script.
    #[cfg(not(kani))]
    rng: Option<u64>,
}

impl Nd {
    #[cfg(kani)]
    pub fn new() -> Self {
        Nd {}
    }

    #[cfg(not(kani))]
    pub fn from_script(script: Vec<Vec<u8>>) -> Self {
        Nd {
            script: script.into(),
            covered: Vec::new(),
            drawn: 0,
            rng: None,
        }
    }

    /// Native smoke testing of harness bodies (not a deciding technique): pseudo-random draws,
    /// biased towards small values so that `assume`d ranges are hit often.
    #[cfg(not(kani))]
    pub fn random(seed: u64) -> Self {
        Nd {
            script: VecDeque::new(),
            covered: Vec::new(),
            drawn: 0,
            rng: Some({ let mut z = seed.wrapping_add(0x9E3779B97F4A7C15); z = (z ^ (z >> 30)).wrapping_mul(0xBF58476D1CE4E5B9); z = (z ^ (z >> 27)).wrapping_mul(0x94D049BB133111EB); (z ^ (z >> 31)) | 1 }),
        }
    }

    /// Unbiased pseudo-random word (native smoke mode only).
    #[cfg(not(kani))]
    fn raw(&mut self) -> u64 {
        self.drawn += 1;
        let state = self.rng.as_mut().expect("smoke mode");
        let mut x = *state;
        x ^= x << 13;
        x ^= x >> 7;
        x ^= x << 17;
        *state = x;
        x.wrapping_mul(0x2545F4914F6CDD1D) >> 16
    }

    #[cfg(not(kani))]
    fn next_bytes<const N: usize>(&mut self) -> [u8; N] {
        self.drawn += 1;
        let mut out = [0u8; N];
        if let Some(state) = self.rng.as_mut() {
            let mut x = *state;
            x ^= x << 13;
            x ^= x >> 7;
            x ^= x << 17;
            *state = x;
            let mut v = x.wrapping_mul(0x2545F4914F6CDD1D);
            for b in out.iter_mut() {
                *b = v as u8;
                v >>= 8;
            }
            let sel = (x >> 58) & 15;
            if sel < 8 {
                let keep = out[0] & 1;
                out = [0u8; N];
                out[0] = keep;
            } else if sel < 12 {
                let keep = out[0] % 10;
                out = [0u8; N];
                out[0] = keep;
            } else if sel < 14 {
                // printable-ish ASCII from a grammar-relevant alphabet
                const ALPHA: &[u8] = b"aZ9_-.:,()[]?# \n\0\"\\bintsrgfloc";
                let keep = ALPHA[(out[0] as usize) % ALPHA.len()];
                out = [0u8; N];
                out[0] = keep;
            }
            return out;
        }
        match self.script.pop_front() {
            Some(v) => {
                if v.len() != N {
                    panic!(
                        "replay script mismatch: draw #{} wants {} bytes, script has {}",
                        self.drawn,
                        N,
                        v.len()
                    );
                }
                out.copy_from_slice(&v);
            }
            // A script that is too short is padded with zeroes (Kani omits trailing values that
            // do not influence the failure).
            None => {}
        }
        out
    }

    pub fn u8(&mut self) -> u8 {
        #[cfg(kani)]
        {
            kani::any()
        }
        #[cfg(not(kani))]
        {
            u8::from_le_bytes(self.next_bytes::<1>())
        }
    }

    pub fn u16(&mut self) -> u16 {
        #[cfg(kani)]
        {
            kani::any()
        }
        #[cfg(not(kani))]
        {
            u16::from_le_bytes(self.next_bytes::<2>())
        }
    }

    pub fn u32(&mut self) -> u32 {
        #[cfg(kani)]
        {
            kani::any()
        }
        #[cfg(not(kani))]
        {
            u32::from_le_bytes(self.next_bytes::<4>())
        }
    }

    pub fn u64(&mut self) -> u64 {
        #[cfg(kani)]
        {
            kani::any()
        }
        #[cfg(not(kani))]
        {
            u64::from_le_bytes(self.next_bytes::<8>())
        }
    }

    pub fn u128(&mut self) -> u128 {
        #[cfg(kani)]
        {
            kani::any()
        }
        #[cfg(not(kani))]
        {
            u128::from_le_bytes(self.next_bytes::<16>())
        }
    }

    pub fn usize(&mut self) -> usize {
        self.u64() as usize
    }

    pub fn assume(&mut self, cond: bool) {
        #[cfg(kani)]
        {
            kani::assume(cond);
        }
        #[cfg(not(kani))]
        {
            if !cond {
                std::panic::panic_any(Rejected);
            }
        }
    }

    pub fn bool(&mut self) -> bool {
        let b = self.u8();
        self.assume(b <= 1);
        b == 1
    }

    /// A value in `0..n` (n ≤ 256).
    pub fn below(&mut self, n: usize) -> usize {
        let v = self.u8() as usize;
        self.assume(v < n);
        v
    }

    /// A value in `lo..=hi`.
    pub fn range(&mut self, lo: usize, hi: usize) -> usize {
        let v = self.u8() as usize;
        self.assume(v >= lo && v <= hi);
        v
    }

    /// Any Unicode scalar value.
    pub fn char(&mut self) -> char {
        let v = self.u32();
        self.assume(v < 0xD800 || (v > 0xDFFF && v <= 0x10FFFF));
        // Assumed to be a scalar value just above.
        match char::from_u32(v) {
            Some(c) => c,
            None => {
                self.assume(false);
                'x'
            }
        }
    }

    /// A byte in `lo..=hi`. (Native smoke mode maps its draw into the range instead of rejecting.)
    pub fn byte_in(&mut self, lo: u8, hi: u8) -> u8 {
        #[cfg(not(kani))]
        if self.rng.is_some() {
            let span = (hi - lo) as u64 + 1;
            return lo + (self.raw() % span) as u8;
        }
        let v = self.u8();
        self.assume(v >= lo && v <= hi);
        v
    }

    /// A `u32` in `lo..=hi`. (Native smoke mode maps its draw into the range instead of rejecting.)
    pub fn u32_in(&mut self, lo: u32, hi: u32) -> u32 {
        #[cfg(not(kani))]
        if self.rng.is_some() {
            let span = (hi - lo) as u64 + 1;
            return lo + (self.raw() % span) as u32;
        }
        let v = self.u32();
        self.assume(v >= lo && v <= hi);
        v
    }

    /// An ASCII letter or digit.
    pub fn alnum(&mut self) -> u8 {
        #[cfg(not(kani))]
        if self.rng.is_some() {
            const A: &[u8] = b"abcXYZ0189qz";
            return A[(self.raw() as usize) % A.len()];
        }
        let v = self.u8();
        self.assume(v.is_ascii_alphanumeric());
        v
    }

    /// An ASCII byte (< 0x80).
    pub fn ascii(&mut self) -> u8 {
        let b = self.u8();
        self.assume(b < 0x80);
        b
    }

    #[cfg(not(kani))]
    pub fn note_cover(&mut self, what: &'static str) {
        if !self.covered.contains(&what) {
            self.covered.push(what);
        }
    }
}

/// Vacuity witness: under Kani a `kani::cover!` (reported SATISFIED/UNSATISFIABLE), natively a
/// note in the replay report.
#[macro_export]
macro_rules! cover {
    ($nd:expr, $cond:expr, $msg:literal) => {{
        #[cfg(all(kani, not(verif_nocover)))]
        {
            let _ = &$nd;
            kani::cover!($cond, $msg);
        }
        #[cfg(all(kani, verif_nocover))]
        {
            let _ = (&$nd, $cond);
        }
        #[cfg(not(kani))]
        {
            if $cond {
                $nd.note_cover($msg);
            }
        }
    }};
}

/// End the exploration of the current path (bound of the harness reached): `assume(false)` under
/// Kani, a rejected script natively.
pub fn cut_path() {
    #[cfg(kani)]
    kani::assume(false);
    #[cfg(not(kani))]
    std::panic::panic_any(Rejected);
}

/// `&str` view of bytes the harness has constrained to be valid UTF-8 (ASCII bytes, or the output
/// of `char::encode_utf8`). `core::str::from_utf8` is avoided in harness code: its word-at-a-time
/// fast path depends on pointer alignment, which is nondeterministic under CBMC, so its loop is
/// unrolled to the bound (4 433 iterations observed for a 1-byte array).
pub fn str_of(b: &[u8]) -> &str {
    unsafe { core::str::from_utf8_unchecked(b) }
}
