"""Run Kani harnesses against /repo's current working tree, parse CBMC's verdicts, replay
counterexamples natively, write evidence.  See /verif/DESIGN.md section 6."""
import json, os, re, signal, subprocess, sys, threading, time, queue, shutil

VERIF = os.path.dirname(os.path.dirname(os.path.abspath(__file__)))
# Development aid (seed sweeps in scratch copies): the registered commands never set these, so the
# checks run from /verif/harness against /repo itself.
HARNESS_DIR = os.environ.get("VERIF_HARNESS_DIR") or os.path.join(VERIF, "harness")
WORK = os.environ.get("VERIF_WORK") or os.path.join(VERIF, "work")
KT = os.environ.get("VERIF_KT") or os.path.join(VERIF, ".kt")
REPO = os.environ.get("VERIF_REPO") or "/repo"

BUILD_FLAGS = {
    "small": "--cfg zlink_verif --cfg zlink_verif_small",     # BUFFER_SIZE=8, MAX_BUFFER_SIZE=32
    "mid": "--cfg zlink_verif --cfg zlink_verif_small",       # BUFFER_SIZE=128, MAX_BUFFER_SIZE=128 (one step, no growth)
    "prod": "--cfg zlink_verif",                              # 256 / 100 MiB
}
BUILD_ENV = {
    "small": {"ZLINK_VERIF_STEP": "8", "ZLINK_VERIF_MAX": "32"},
    "mid": {"ZLINK_VERIF_STEP": "128", "ZLINK_VERIF_MAX": "128"},
    "prod": {},
}

STUBS = [
    "core::fmt::write -> Ok(()) writing nothing (error/log text is not observed)",
    "alloc::fmt::format -> String::new()",
    "tracing_core::metadata::LevelFilter::current -> OFF (all trace!/warn! call sites short-circuit)",
    "serde_json::error::parse_line_col -> None (decorates error positions only)",
    "crate memchr replaced via [patch.crates-io] by /verif/vendor/memchr-naive (loop implementation; the real crate dispatches to SIMD through a function pointer); under the solver its memrchr/memchr_iter report no match (only serde_json's error line/column computation calls them)",
]


def base_env(build, extra_cfg=""):
    env = dict(os.environ)
    env["CARGO_NET_OFFLINE"] = "true"
    env["RUST_BACKTRACE"] = "0"
    env["RUSTFLAGS"] = BUILD_FLAGS[build] + extra_cfg
    env.update(BUILD_ENV[build])
    env.pop("CARGO_TARGET_DIR", None)
    return env


def tree_rss_kb(pgid):
    """Sum of RSS of all processes in process group pgid."""
    total = 0
    try:
        out = subprocess.run(["ps", "-eo", "pgid=,rss="], capture_output=True, text=True).stdout
        for line in out.splitlines():
            parts = line.split()
            if len(parts) == 2 and parts[0] == str(pgid):
                total += int(parts[1])
    except Exception:
        pass
    return total


def run_limited(cmd, cwd, env, log_path, timeout_s, mem_gb):
    """Run cmd in its own process group with a wall-clock and RSS limit.
    Returns (status, wall_s, peak_rss_kb); status in ok|timeout|oom|exit:<n>."""
    t0 = time.time()
    peak = 0
    with open(log_path, "wb") as log:
        p = subprocess.Popen(cmd, cwd=cwd, env=env, stdout=log, stderr=subprocess.STDOUT,
                             start_new_session=True)
        # The job runs in its own process group (so that a timeout can kill cargo, kani-driver and cbmc together).
        # If ./check itself is killed from outside, nobody would reap that group and its cbmc processes would keep
        # the target directory locked for the next check: a watcher kills the group as soon as ./check is gone.
        watcher = subprocess.Popen(["/bin/sh", "-c", "while kill -0 %d 2>/dev/null; do sleep 2; done; kill -9 -%d 2>/dev/null"
                                    % (os.getpid(), p.pid)], start_new_session=True,
                                   stdout=subprocess.DEVNULL, stderr=subprocess.DEVNULL)
        status = None
        while True:
            try:
                p.wait(timeout=2.0)
                break
            except subprocess.TimeoutExpired:
                pass
            rss = tree_rss_kb(p.pid)
            peak = max(peak, rss)
            if rss > mem_gb * 1024 * 1024:
                status = "oom"
            elif time.time() - t0 > timeout_s:
                status = "timeout"
            if status:
                try:
                    os.killpg(p.pid, signal.SIGKILL)
                except ProcessLookupError:
                    pass
                p.wait()
                break
    try:
        watcher.kill()
        watcher.wait()
    except Exception:
        pass
    wall = time.time() - t0
    if status is None:
        status = "ok" if p.returncode == 0 else "exit:%d" % p.returncode
    return status, wall, peak


CHECK_RE = re.compile(r"^Check (\d+): (\S.*)$")


def split_sections(path):
    """A Kani log of several harnesses -> {kani harness name: [lines]} (plus "" for the preamble)."""
    out = {"": []}
    cur = ""
    with open(path, "r", errors="replace") as f:
        for line in f:
            if line.startswith("Checking harness "):
                cur = line[len("Checking harness "):].strip().rstrip(".")
                out[cur] = []
                continue
            if line.startswith("Unwinding loop"):
                continue
            out[cur].append(line)
    return out


def parse_kani_log(path, lines=None):
    """Extract verdict, failed checks, cover results, CBMC statistics, encoded repo functions and
    concrete playback value vectors from a Kani log (or from the given section of one)."""
    res = {
        "verdict": None, "failed": [], "covers": [], "unwind_failed": [], "stats": {},
        "functions": set(), "playback": [], "compile_error": False, "stubs_applied": [],
        "n_checks": 0,
    }
    cur = None
    solver_s = 0.0
    in_play = False
    play = None
    if lines is None:
        with open(path, "r", errors="replace") as f:
            lines = [l for l in f if not l.startswith("Unwinding loop")]
    if True:
        for line in lines:
            if line.startswith("Unwinding loop"):
                continue
            if line.startswith("Not unwinding"):
                res.setdefault("not_unwound", []).append(line.strip()[:300])
                continue
            line = line.rstrip("\n")
            m = CHECK_RE.match(line)
            if m:
                cur = {"name": m.group(2), "status": None, "desc": None, "loc": None}
                res["n_checks"] += 1
                continue
            if cur is not None:
                s = line.strip()
                if s.startswith("- Status:"):
                    cur["status"] = s.split(":", 1)[1].strip()
                elif s.startswith("- Description:"):
                    cur["desc"] = s.split(":", 1)[1].strip().strip('"')
                elif s.startswith("- Location:"):
                    cur["loc"] = s.split(":", 1)[1].strip()
                    mm = re.search(r"repo/(\S+?):\d+(?::\d+)? in function (.+)$", cur["loc"])
                    if mm:
                        res["functions"].add(mm.group(2))
                    name = cur["name"]
                    if ".cover." in name:
                        res["covers"].append({"desc": cur["desc"], "status": cur["status"]})
                    elif cur["status"] == "FAILURE":
                        if ".unwind." in name or (cur["desc"] or "").startswith("unwinding assertion"):
                            res["unwind_failed"].append(cur)
                        else:
                            res["failed"].append(cur)
                    cur = None
                continue
            if line.startswith("VERIFICATION:- "):
                res["verdict"] = line.split(":- ")[1].strip()
            elif line.startswith("Runtime Solver:"):
                solver_s += float(line.split(":")[1].strip().rstrip("s"))
            elif line.startswith("Runtime Symex:"):
                res["stats"]["symex_s"] = float(line.split(":")[1].strip().rstrip("s"))
            elif "VCC(s)" in line:
                mm = re.search(r"Generated (\d+) VCC\(s\), (\d+) remaining", line)
                if mm:
                    res["stats"]["vccs"] = int(mm.group(1))
                    res["stats"]["vccs_after_simplification"] = int(mm.group(2))
            elif re.match(r"^\d+ variables, \d+ clauses", line):
                mm = re.match(r"^(\d+) variables, (\d+) clauses", line)
                res["stats"]["sat_variables"] = int(mm.group(1))
                res["stats"]["sat_clauses"] = int(mm.group(2))
            elif line.startswith("Verification Time:"):
                res["stats"]["kani_verification_s"] = float(line.split(":")[1].strip().rstrip("s"))
            elif line.startswith("error[E") or line.startswith("error: could not compile"):
                res["compile_error"] = True
            elif "- Stub:" in line or line.strip().startswith("Stub:"):
                res["stubs_applied"].append(line.strip())
            elif line.startswith("/// Check for `"):
                mm = re.match(r"/// Check for `([^`]*)`: \"(.*)\"", line)
                play = {"class": mm.group(1) if mm else "?", "desc": (mm.group(2) if mm else line).strip('"'),
                        "values": []}
                res["playback"].append(play)
            elif play is not None:
                mm = re.match(r"^\s*vec!\[([0-9, ]*)\],?\s*$", line)
                if mm:
                    body = mm.group(1).strip()
                    play["values"].append([int(x) for x in body.split(",") if x.strip()] if body else [])
                elif line.startswith("}"):
                    play = None
    res["stats"]["solver_s"] = round(solver_s, 3)
    res["functions"] = sorted(res["functions"])
    return res


class Worker(threading.Thread):
    def __init__(self, wid, q, results, sched):
        super().__init__(daemon=True)
        self.wid, self.q, self.results, self.sched = wid, q, results, sched

    def run(self):
        while True:
            try:
                job = self.q.get_nowait()
            except queue.Empty:
                return
            est = max(h["est_gb"] for h in job)
            self.sched.acquire(est)
            try:
                self.results.update(run_job(job, self.wid))
            finally:
                self.sched.release(est)


class MemSched:
    """Admit jobs so that the sum of their expected memory use stays under the budget."""
    def __init__(self, budget_gb):
        self.budget = budget_gb
        self.used = 0
        self.cv = threading.Condition()

    def acquire(self, gb):
        with self.cv:
            while self.used > 0 and self.used + gb > self.budget:
                self.cv.wait()
            self.used += gb

    def release(self, gb):
        with self.cv:
            self.used -= gb
            self.cv.notify_all()


def kani_cmd(hs, target_dir, playback, harness_timeout=None):
    cmd = ["cargo", "kani", "-Z", "stubbing"]
    if playback:
        cmd += ["-Z", "concrete-playback", "--concrete-playback=print"]
    if harness_timeout:
        cmd += ["-Z", "unstable-options", "--harness-timeout", "%ds" % harness_timeout]
    for h in hs:
        cmd += ["--harness", h["kani_name"]]
    cmd += ["--exact", "--target-dir", target_dir]
    return cmd


def classify(h, status, parsed, wall, peak, log):
    out = {"harness": h, "run_status": status, "wall_s": round(wall, 1),
           "peak_rss_mb": peak // 1024, "log": log, **parsed}
    if parsed["verdict"] == "SUCCESSFUL":
        out["outcome"] = "pass"
    elif parsed["verdict"] == "FAILED" and parsed["failed"]:
        out["outcome"] = "fail"
    elif parsed["verdict"] == "FAILED" and parsed["unwind_failed"]:
        out["outcome"] = "inconclusive"
        out["reason"] = "unwinding assertion failed (bound too small): " + \
            "; ".join(sorted({c["loc"] or "" for c in parsed["unwind_failed"]}))[:300]
    elif status in ("timeout", "oom"):
        out["outcome"] = "inconclusive"
        out["reason"] = status
    elif parsed["compile_error"] and parsed["verdict"] is None:
        out["outcome"] = "build_failed"
        out["reason"] = "harness crate does not compile against /repo"
    elif parsed["verdict"] == "FAILED":
        out["outcome"] = "inconclusive"
        out["reason"] = "FAILED without a failed check (per-harness timeout, CBMC error or out of memory)"
    else:
        out["outcome"] = "inconclusive"
        out["reason"] = "no verdict (%s)" % status
    return out


def run_job(job, wid):
    """Pass 1: one `cargo kani` invocation for all harnesses of the job (same build and flavour),
    without concrete playback (trace extraction costs 10-20x the verification itself).
    Pass 2, only for harnesses with a failed assertion: re-run with playback and without cover
    witnesses to obtain the counterexample's values."""
    os.makedirs(os.path.join(WORK, "logs"), exist_ok=True)
    build = job[0]["build"]
    target_dir = os.path.join(KT, "%s-w%d" % (build, wid))
    first = os.path.join(KT, "%s-w0" % build)
    if not os.path.isdir(target_dir) and os.path.isdir(first) and wid != 0:
        subprocess.run(["cp", "-a", first, target_dir])
    results = {}
    if len(job) == 1:
        h = job[0]
        log = os.path.join(WORK, "logs", h["name"].replace("::", "__") + ".log")
        status, wall, peak = run_limited(kani_cmd(job, target_dir, False), HARNESS_DIR, base_env(build),
                                         log, h["timeout_s"] + 90, h["mem_gb"])
        results[h["name"]] = classify(h, status, parse_kani_log(log), wall, peak, log)
    else:
        log = os.path.join(WORK, "logs", "batch-%s-w%d-%s.log" % (build, wid, job[0]["name"].replace("::", "__")))
        per = max(h["timeout_s"] for h in job)
        status, wall, peak = run_limited(kani_cmd(job, target_dir, False, per), HARNESS_DIR, base_env(build),
                                         log, 120 + sum(min(h["timeout_s"], 300) for h in job), max(h["mem_gb"] for h in job))
        sections = split_sections(log)
        pre = parse_kani_log(log, sections.get("", []))
        for h in job:
            sec = sections.get(h["kani_name"])
            if sec is None:
                parsed = parse_kani_log(log, [])
                parsed["compile_error"] = pre["compile_error"]
                r = classify(h, status if status != "ok" else "exit:?", parsed, 0.0, peak, log)
            else:
                parsed = parse_kani_log(log, sec)
                w = parsed["stats"].get("kani_verification_s", 0.0)
                r = classify(h, status if parsed["verdict"] is None else "ok", parsed, w, peak, log)
            results[h["name"]] = r
    for h in job:
        r = results[h["name"]]
        if r["outcome"] != "fail":
            continue
        # A failure that is entirely a recorded known finding needs no counterexample values (pass 2 costs 10-20x pass 1).
        if r["failed"] and all((h["name"], c["desc"]) in KNOWN_KEYS or (h["mod"] + "::" + h["role"], c["desc"]) in KNOWN_KEYS
                               for c in r["failed"]):
            r["playback"], r["playback_status"], r["playback_log"] = [], "skipped (known finding)", None
            continue
        log2 = os.path.join(WORK, "logs", h["name"].replace("::", "__") + ".playback.log")
        status, wall, peak = run_limited(kani_cmd([h], target_dir, True), HARNESS_DIR,
                                         base_env(build, " --cfg verif_nocover"),
                                         log2, 2 * h["timeout_s"] + 300, max(28, h["mem_gb"]))   # Kani's trace extraction needs far more memory than the verdict
        p2 = parse_kani_log(log2)
        r["playback"] = p2["playback"]
        r["playback_status"] = status
        r["playback_log"] = log2
        r["wall_s"] = round(r["wall_s"] + wall, 1)
    return results


def run_all(harnesses, jobs, mem_budget_gb):
    """Group harnesses into jobs: harnesses with a `batch` size are run several per invocation
    (same build / flavour), the others one per invocation; longest first."""
    singles = [[h] for h in harnesses if not h.get("batch")]
    groups = {}
    for h in harnesses:
        if h.get("batch"):
            groups.setdefault((h["build"], h["gmod"], h["batch"]), []).append(h)
    batches = []
    for (_, _, size), hs in groups.items():
        # spread over at least `jobs` invocations
        size = max(1, min(size, -(-len(hs) // max(1, jobs))))
        for i in range(0, len(hs), size):
            batches.append(hs[i:i + size])
    q = queue.Queue()
    for job in sorted(singles + batches, key=lambda j: -sum(h["timeout_s"] for h in j)):
        q.put(job)
    results = {}
    sched = MemSched(mem_budget_gb)
    wbase = int(os.environ.get("VERIF_WBASE", "0") or 0)   # development aid: separate target dirs for concurrent runs
    njobs = len(singles) + len(batches)
    ws = [Worker(wbase + i, q, results, sched) for i in range(min(jobs, max(1, njobs)))]
    for w in ws:
        w.start()
    for w in ws:
        w.join()
    return results


# (harness name or role, assertion) pairs of status=known findings of the property being decided; set by ./check
KNOWN_KEYS = set()

_native_lock = threading.Lock()
_native_built = {}


def native_build(build, profile):
    """Build the replay binary natively (no stubs, real memchr patch stays) and return its path."""
    key = (build, profile)
    with _native_lock:
        if key in _native_built:
            return _native_built[key]
        tdir = os.path.join(KT, "native-%s" % build)
        cmd = ["cargo", "build", "--offline", "--bin", "replay", "--target-dir", tdir]
        if profile == "release":
            cmd.append("--release")
        os.makedirs(os.path.join(WORK, "logs"), exist_ok=True)
        log = os.path.join(WORK, "logs", "native-%s-%s.log" % (build, profile))
        with open(log, "wb") as f:
            rc = subprocess.run(cmd, cwd=HARNESS_DIR, env=base_env(build), stdout=f,
                                stderr=subprocess.STDOUT).returncode
        path = os.path.join(tdir, "release" if profile == "release" else "debug", "replay")
        _native_built[key] = path if rc == 0 else None
        return _native_built[key]


def native_replay(h, values, profile="debug", script_path=None):
    """Replay a value script against the real crate. Returns (status, output); status in
    reproduced|held|rejected|error."""
    exe = native_build(h["build"], profile)
    if exe is None:
        return "error", "native build failed"
    if script_path is None:
        os.makedirs(os.path.join(WORK, "replay"), exist_ok=True)
        script_path = os.path.join(WORK, "replay", "tmp-%s-%d.json" % (h["name"].replace("::", "__"), threading.get_ident()))
        with open(script_path, "w") as f:
            json.dump({"harness": h["name"], "values": values}, f)
    try:
        p = subprocess.run([exe, h["body_name"], script_path], capture_output=True, text=True, timeout=120)
    except subprocess.TimeoutExpired:
        return "error", "native replay timed out"
    out = (p.stdout + p.stderr)[-2000:]
    if p.returncode == 0:
        return "held", out
    if p.returncode == 3:
        return "rejected", out
    if p.returncode == 101:
        return "reproduced", out
    return "error", out
