"""Run Kani harnesses against /repo's current working tree, parse CBMC's verdicts, replay
counterexamples natively, write evidence.  See /verif/DESIGN.md section 6."""
import json, os, re, signal, subprocess, sys, threading, time, queue, shutil

VERIF = os.path.dirname(os.path.dirname(os.path.abspath(__file__)))
HARNESS_DIR = os.path.join(VERIF, "harness")
WORK = os.path.join(VERIF, "work")
KT = os.path.join(VERIF, ".kt")
REPO = "/repo"

BUILD_FLAGS = {
    "small": "--cfg zlink_verif --cfg zlink_verif_small",
    "prod": "--cfg zlink_verif",
}

STUBS = [
    "core::fmt::write -> Ok(()) writing nothing (error/log text is not observed)",
    "alloc::fmt::format -> String::new()",
    "tracing_core::metadata::LevelFilter::current -> OFF (all trace!/warn! call sites short-circuit)",
    "serde_json::error::parse_line_col -> None (decorates error positions only)",
    "crate memchr replaced via [patch.crates-io] by /verif/vendor/memchr-naive (loop implementation; the real crate dispatches to SIMD through a function pointer)",
]


def base_env(build):
    env = dict(os.environ)
    env["CARGO_NET_OFFLINE"] = "true"
    env["RUST_BACKTRACE"] = "0"
    env["RUSTFLAGS"] = BUILD_FLAGS[build]
    env.pop("CARGO_TARGET_DIR", None)
    return env


def tree_rss_kb(pgid):
    """Sum of RSS of all processes in process group pgid."""
    total = 0
    try:
        out = subprocess.run(["ps", "-eo", "pgid=,rss="], capture_output=True, text=True).stdout
        for line in out.splitlines():
            parts = line.split()
            if len(parts) == 2 and parts[0] == str(pgid):
                total += int(parts[1])
    except Exception:
        pass
    return total


def run_limited(cmd, cwd, env, log_path, timeout_s, mem_gb):
    """Run cmd in its own process group with a wall-clock and RSS limit.
    Returns (status, wall_s, peak_rss_kb); status in ok|timeout|oom|exit:<n>."""
    t0 = time.time()
    peak = 0
    with open(log_path, "wb") as log:
        p = subprocess.Popen(cmd, cwd=cwd, env=env, stdout=log, stderr=subprocess.STDOUT,
                             start_new_session=True)
        status = None
        while True:
            try:
                p.wait(timeout=2.0)
                break
            except subprocess.TimeoutExpired:
                pass
            rss = tree_rss_kb(p.pid)
            peak = max(peak, rss)
            if rss > mem_gb * 1024 * 1024:
                status = "oom"
            elif time.time() - t0 > timeout_s:
                status = "timeout"
            if status:
                try:
                    os.killpg(p.pid, signal.SIGKILL)
                except ProcessLookupError:
                    pass
                p.wait()
                break
    wall = time.time() - t0
    if status is None:
        status = "ok" if p.returncode == 0 else "exit:%d" % p.returncode
    return status, wall, peak


CHECK_RE = re.compile(r"^Check (\d+): (\S.*)$")


def parse_kani_log(path):
    """Extract verdict, failed checks, cover results, CBMC statistics, encoded repo functions and
    concrete playback value vectors from a Kani log."""
    res = {
        "verdict": None, "failed": [], "covers": [], "unwind_failed": [], "stats": {},
        "functions": set(), "playback": [], "compile_error": False, "stubs_applied": [],
        "n_checks": 0,
    }
    cur = None
    solver_s = 0.0
    in_play = False
    play = None
    with open(path, "r", errors="replace") as f:
        for line in f:
            if line.startswith("Unwinding loop") or line.startswith("Not unwinding"):
                continue
            line = line.rstrip("\n")
            m = CHECK_RE.match(line)
            if m:
                cur = {"name": m.group(2), "status": None, "desc": None, "loc": None}
                res["n_checks"] += 1
                continue
            if cur is not None:
                s = line.strip()
                if s.startswith("- Status:"):
                    cur["status"] = s.split(":", 1)[1].strip()
                elif s.startswith("- Description:"):
                    cur["desc"] = s.split(":", 1)[1].strip().strip('"')
                elif s.startswith("- Location:"):
                    cur["loc"] = s.split(":", 1)[1].strip()
                    mm = re.search(r"repo/(\S+?):\d+(?::\d+)? in function (.+)$", cur["loc"])
                    if mm:
                        res["functions"].add(mm.group(2))
                    name = cur["name"]
                    if ".cover." in name:
                        res["covers"].append({"desc": cur["desc"], "status": cur["status"]})
                    elif cur["status"] == "FAILURE":
                        if ".unwind." in name or (cur["desc"] or "").startswith("unwinding assertion"):
                            res["unwind_failed"].append(cur)
                        else:
                            res["failed"].append(cur)
                    cur = None
                continue
            if line.startswith("VERIFICATION:- "):
                res["verdict"] = line.split(":- ")[1].strip()
            elif line.startswith("Runtime Solver:"):
                solver_s += float(line.split(":")[1].strip().rstrip("s"))
            elif line.startswith("Runtime Symex:"):
                res["stats"]["symex_s"] = float(line.split(":")[1].strip().rstrip("s"))
            elif "VCC(s)" in line:
                mm = re.search(r"Generated (\d+) VCC\(s\), (\d+) remaining", line)
                if mm:
                    res["stats"]["vccs"] = int(mm.group(1))
                    res["stats"]["vccs_after_simplification"] = int(mm.group(2))
            elif re.match(r"^\d+ variables, \d+ clauses", line):
                mm = re.match(r"^(\d+) variables, (\d+) clauses", line)
                res["stats"]["sat_variables"] = int(mm.group(1))
                res["stats"]["sat_clauses"] = int(mm.group(2))
            elif line.startswith("Verification Time:"):
                res["stats"]["kani_verification_s"] = float(line.split(":")[1].strip().rstrip("s"))
            elif line.startswith("error[E") or line.startswith("error: could not compile"):
                res["compile_error"] = True
            elif "- Stub:" in line or line.strip().startswith("Stub:"):
                res["stubs_applied"].append(line.strip())
            elif line.startswith("/// Check for `"):
                mm = re.match(r"/// Check for `([^`]*)`: \"(.*)\"", line)
                play = {"class": mm.group(1) if mm else "?", "desc": (mm.group(2) if mm else line).strip('"'),
                        "values": []}
                res["playback"].append(play)
            elif play is not None:
                mm = re.match(r"^\s*vec!\[([0-9, ]*)\],?\s*$", line)
                if mm:
                    body = mm.group(1).strip()
                    play["values"].append([int(x) for x in body.split(",") if x.strip()] if body else [])
                elif line.startswith("}"):
                    play = None
    res["stats"]["solver_s"] = round(solver_s, 3)
    res["functions"] = sorted(res["functions"])
    return res


class Worker(threading.Thread):
    def __init__(self, wid, q, results, sched):
        super().__init__(daemon=True)
        self.wid, self.q, self.results, self.sched = wid, q, results, sched

    def run(self):
        while True:
            try:
                h = self.q.get_nowait()
            except queue.Empty:
                return
            self.sched.acquire(h["mem_gb"])
            try:
                self.results[h["name"]] = run_harness(h, self.wid)
            finally:
                self.sched.release(h["mem_gb"])


class MemSched:
    """Admit harnesses so that the sum of their memory caps stays under the budget."""
    def __init__(self, budget_gb):
        self.budget = budget_gb
        self.used = 0
        self.cv = threading.Condition()

    def acquire(self, gb):
        with self.cv:
            while self.used > 0 and self.used + gb > self.budget:
                self.cv.wait()
            self.used += gb

    def release(self, gb):
        with self.cv:
            self.used -= gb
            self.cv.notify_all()


def kani_cmd(h, target_dir):
    cmd = ["cargo", "kani", "-Z", "stubbing", "-Z", "concrete-playback", "--concrete-playback=print",
           "--harness", h["kani_name"], "--exact", "--target-dir", target_dir]
    return cmd


def run_harness(h, wid):
    os.makedirs(os.path.join(WORK, "logs"), exist_ok=True)
    target_dir = os.path.join(KT, "%s-w%d" % (h["build"], wid))
    log = os.path.join(WORK, "logs", h["name"].replace("::", "__") + ".log")
    status, wall, peak = run_limited(kani_cmd(h, target_dir), HARNESS_DIR, base_env(h["build"]),
                                     log, h["timeout_s"], h["mem_gb"])
    parsed = parse_kani_log(log)
    out = {"harness": h, "run_status": status, "wall_s": round(wall, 1),
           "peak_rss_mb": peak // 1024, "log": log, **parsed}
    if status in ("timeout", "oom"):
        out["outcome"] = "inconclusive"
        out["reason"] = status
    elif parsed["compile_error"] and parsed["verdict"] is None:
        out["outcome"] = "build_failed"
        out["reason"] = "harness crate does not compile against /repo"
    elif parsed["verdict"] == "SUCCESSFUL":
        out["outcome"] = "pass"
    elif parsed["verdict"] == "FAILED":
        if parsed["failed"]:
            out["outcome"] = "fail"
        elif parsed["unwind_failed"]:
            out["outcome"] = "inconclusive"
            out["reason"] = "unwinding assertion failed (bound too small): " + \
                "; ".join(sorted({c["loc"] or "" for c in parsed["unwind_failed"]}))[:300]
        else:
            out["outcome"] = "inconclusive"
            out["reason"] = "FAILED without a failed check (CBMC error / out of memory?)"
    else:
        out["outcome"] = "inconclusive"
        out["reason"] = "no verdict (%s)" % status
    return out


def run_all(harnesses, jobs, mem_budget_gb):
    q = queue.Queue()
    # longest first
    for h in sorted(harnesses, key=lambda h: -h["timeout_s"]):
        q.put(h)
    results = {}
    sched = MemSched(mem_budget_gb)
    ws = [Worker(i, q, results, sched) for i in range(min(jobs, max(1, len(harnesses))))]
    for w in ws:
        w.start()
    for w in ws:
        w.join()
    return results


_native_lock = threading.Lock()
_native_built = {}


def native_build(build, profile):
    """Build the replay binary natively (no stubs, real memchr patch stays) and return its path."""
    key = (build, profile)
    with _native_lock:
        if key in _native_built:
            return _native_built[key]
        tdir = os.path.join(KT, "native-%s" % build)
        cmd = ["cargo", "build", "--offline", "--bin", "replay", "--target-dir", tdir]
        if profile == "release":
            cmd.append("--release")
        os.makedirs(os.path.join(WORK, "logs"), exist_ok=True)
        log = os.path.join(WORK, "logs", "native-%s-%s.log" % (build, profile))
        with open(log, "wb") as f:
            rc = subprocess.run(cmd, cwd=HARNESS_DIR, env=base_env(build), stdout=f,
                                stderr=subprocess.STDOUT).returncode
        path = os.path.join(tdir, "release" if profile == "release" else "debug", "replay")
        _native_built[key] = path if rc == 0 else None
        return _native_built[key]


def native_replay(h, values, profile="debug", script_path=None):
    """Replay a value script against the real crate. Returns (status, output); status in
    reproduced|held|rejected|error."""
    exe = native_build(h["build"], profile)
    if exe is None:
        return "error", "native build failed"
    if script_path is None:
        os.makedirs(os.path.join(WORK, "replay"), exist_ok=True)
        script_path = os.path.join(WORK, "replay", "tmp-%s-%d.json" % (h["name"].replace("::", "__"), threading.get_ident()))
        with open(script_path, "w") as f:
            json.dump({"harness": h["name"], "values": values}, f)
    try:
        p = subprocess.run([exe, h["body_name"], script_path], capture_output=True, text=True, timeout=120)
    except subprocess.TimeoutExpired:
        return "error", "native replay timed out"
    out = (p.stdout + p.stderr)[-2000:]
    if p.returncode == 0:
        return "held", out
    if p.returncode == 3:
        return "rejected", out
    if p.returncode == 101:
        return "reproduced", out
    return "error", out
