"""Harness catalog: which Kani proofs decide which property, in which tier, under which caps.

name      : "<module>::<proof>"  (Kani name is <module>::k::<proof>; native registry name is <proof>)
tiers     : subset of {"quick","thorough"}; thorough runs quick's harnesses too
inputs    : what is symbolic in this instance (written to the evidence samples)
bound     : the stated bound
finding   : if set, this harness is pinned to one known defect (known_findings.json key); it is
            *expected* to be refuted on a tree that still has the defect
"""

H = []


def add(prop, name, tiers, timeout_s=900, mem_gb=8, build="small", inputs="", bound="", role=None,
        body=None, unwind=8, flavour="std", est_gb=None, batch=0):
    """body: Rust path of the harness body `fn(&mut Nd)` (default crate::<mod>::<proof>);
    flavour: "std" = all stubs of DESIGN.md section 4; "nofmt" keeps core::fmt real (C14);
    "ryu" additionally stubs ryu::Buffer::format_finite (C03 finite floats)."""
    mod, proof = name.split("::")
    gmod = mod + ("" if flavour == "std" else "_" + flavour)
    H.append({
        "property": prop, "name": name, "kani_name": "gen::%s::k::%s" % (gmod, proof),
        "body_name": proof, "mod": mod, "flavour": flavour, "gmod": gmod,
        "body": body or "crate::%s::%s" % (mod, proof), "unwind": unwind,
        "tiers": set(tiers), "timeout_s": timeout_s, "mem_gb": mem_gb, "build": build,
        "inputs": inputs, "bound": bound, "role": role or proof,
        # mem_gb is the kill threshold; est_gb what the scheduler reserves (typical use is well below the cap)
        "est_gb": est_gb if est_gb is not None else max(2, mem_gb // 2),
        # batch > 0: up to that many harnesses of the same module per `cargo kani` invocation
        "batch": batch,
    })


Q = ("quick", "thorough")
T = ("thorough",)

# ---------------------------------------------------------------------------------------- C01 / C07 / C17 (inbound)
def read_states():
    for L in (8, 16, 24, 32):
        for RP in range(0, L):
            yield L, RP

C01_QUICK = {(8, 0), (8, 6), (8, 7), (16, 0), (16, 14), (16, 15), (24, 23), (32, 0), (32, 24), (32, 30), (32, 31)}
for L, RP in read_states():
    quick = (L, RP) in C01_QUICK
    # One transport step per call: the inductive step of the read loop (the state after a read that
    # does not complete the frame is the pre-state of another instance of the family).
    add("C01", "p01::read_step1_l%d_r%02d" % (L, RP), Q if quick else T, 900, 8,
        body="crate::p01::read_step::<%d, %d, 1, false>" % (L, RP), unwind=42,
        inputs="read buffer len=%d, read_pos=%d (concrete), the %d buffered bytes symbolic (last one not NUL); one transport step symbolic in kind {data, pending, eof, error}, chunk length 1..=8 and chunk bytes, then end of stream" % (L, RP, RP),
        bound="one read_from_socket call, 1 transport read (+ EOF), small build (STEP=8, MAX=32)", role="read_step")
    add("C07", "p01::read_step1_cancel_l%d_r%02d" % (L, RP), Q if quick else T, 900, 8,
        body="crate::p01::read_step::<%d, %d, 1, true>" % (L, RP), unwind=42,
        inputs="as C01 read_step1 (len=%d, read_pos=%d), plus: at every Pending a symbolic bool decides whether the receive future is dropped and a new one created" % (L, RP),
        bound="1 transport step, <= 2 futures, small build", role="read_step_cancel")
# Two transport steps per call and the relational two-connection form exceed 8 GB (symbolic write offset after the
# first chunk): a few instances stay in the thorough tier and are expected to be reported INCONCLUSIVE there.
for L, RP in ((8, 0), (16, 9)):
    add("C01", "p01::read_step_l%d_r%02d" % (L, RP), T, 1200, 10,
        body="crate::p01::read_step::<%d, %d, 2, false>" % (L, RP), unwind=42,
        inputs="as read_step1 with a script of 2 symbolic steps (len=%d, read_pos=%d)" % (L, RP),
        bound="one read_from_socket call, <= 2 transport reads", role="read_step")
    add("C07", "p01::cancel_relational_l%d_r%02d" % (L, RP), T, 1200, 10,
        body="crate::p01::cancel_relational::<%d, %d, 1>" % (L, RP), unwind=42,
        inputs="two real connections in state (len=%d, read_pos=%d) fed the same symbolic 1-step script; A's future dropped at a symbolic subset of Pendings, B's never" % (L, RP),
        bound="1 transport step, two connections", role="cancel_relational")
for (L, RP, MP) in ((8, 5, 3), (16, 12, 4), (32, 31, 16)):
    add("C01", "p01::read_step_buffered_l%d_r%02d_m%02d" % (L, RP, MP), Q if L == 8 else T, 600, 6,
        body="crate::p01::read_step_buffered::<%d, %d, %d>" % (L, RP, MP), unwind=42,
        inputs="state with a frame already buffered (len=%d, read_pos=%d, msg_pos=%d), buffer bytes symbolic" % (L, RP, MP),
        bound="one call", role="read_step_buffered")

for (n1, n2, cut, q) in ((2, 2, 0, True), (2, 2, 3, True), (2, 2, 1, False), (2, 2, 4, False), (3, 2, 0, False), (3, 2, 4, False), (3, 2, 5, False), (2, 3, 0, False), (1, 1, 0, True), (1, 1, 2, False)):
    # depth-2 coroutine nest (read_message -> read_from_socket): no solver verdict (DESIGN 12.1); kept for the native selftest
    add("C01", "p01::recv_frames_%d_%d_c%d" % (n1, n2, cut), (), 2400, 12,
        body="crate::p01::recv_frames::<u8, %d, %d, %d>" % (n1, n2, cut), unwind=12,
        inputs="stream F1 NUL F2 NUL, F1 = %d and F2 = %d arbitrary non-NUL bytes, %s, then end of stream; three receives of u8" % (n1, n2, "one read" if cut == 0 else "cut into two reads after %d bytes" % cut),
        bound="end to end through read_message::<u8> (transport read, frame boundary, serde_json decode) on 2 frames of <= 3 bytes, small build", role="recv_frames")

for (n1, n2, q) in ((1, 1, True), (2, 2, True), (3, 2, False), (2, 3, False), (3, 3, False)):
    add("C01", "p01::recv_buffered_%d_%d" % (n1, n2), (), 2400, 12,
        body="crate::p01::recv_buffered::<u8, %d, %d>" % (n1, n2), unwind=18,
        inputs="two frames F1 NUL F2 NUL already buffered (F1 = %d, F2 = %d arbitrary non-NUL bytes) behind one consumed byte; two receives of u8 through read_message" % (n1, n2),
        bound="read_message::<u8> twice on a pre-loaded buffer (frame boundary, serde_json decode, cursor update), small build", role="recv_buffered")
# Layer 2 by the solver: the same bodies with decoders that keep serde_json's number parser (f64 path) out of the formula.
for (dec, decname, what) in (("Skip", "skip", "decoder that consumes nothing (verdict = frame is all JSON whitespace)"), ("Null", "null", "decoder for the literal null")):
    for (mp, n1, more, q) in ((1, 1, 0, True), (1, 1, 1, True), (1, 2, 0, False), (1, 2, 2, True), (3, 3, 0, False), (3, 3, 1, True), (6, 2, 1, False), (9, 4, 0, True), (9, 4, 3, False), (9, 5, 1, True), (12, 6, 0, False), (1, 7, 2, False)):
        if dec == "Null" and n1 < 4:
            continue
        add("C01", "p01::recv_step_%s_m%02d_n%d_r%d" % (decname, mp, n1, more), (Q if q else T) if dec == "Skip" else (), 900, 10, est_gb=6,
            body="crate::p01::recv_step::<crate::p01::%s, %d, %d, %d>" % (dec, mp, n1, more), unwind=26,
            inputs="buffered state msg_pos=%d: frame of %d arbitrary non-NUL bytes, NUL, %s; %s" % (mp, n1, "then the sentinel (last frame)" if more == 0 else "then %d arbitrary non-NUL bytes, NUL, sentinel (another frame follows)" % more, what),
            bound="one read_message call on a pre-loaded buffer (frame boundary, decode of exactly the frame, cursor update, bytes intact), small build", role="recv_step")
    for (n1, more, q) in ((1, 0, True), (1, 1, True), (2, 0, False), (3, 2, True), (4, 0, False), (4, 2, False), (6, 0, False), (5, 1, False)):
        if dec == "Null" and n1 < 4:
            continue
        add("C01", "p01::recv_fresh_%s_n%d_r%d" % (decname, n1, more), (Q if q else T) if dec == "Skip" else (), 1200, 10, est_gb=6,
            body="crate::p01::recv_fresh::<crate::p01::%s, %d, %d>" % (dec, n1, more), unwind=26,
            inputs="fresh connection; the transport delivers in one read a frame of %d arbitrary non-NUL bytes, NUL%s; %s" % (n1, "" if more == 0 else ", then %d arbitrary non-NUL bytes and a NUL" % more, what),
            bound="one read_message call from the initial state through one transport read (layers 1 and 2 composed), small build", role="recv_fresh")
    for (n1, n2, q) in ((1, 1, True), (2, 2, False), (3, 2, False), (4, 4, True), (5, 4, False)):
        if dec == "Null" and n1 < 4:
            continue
        add("C01", "p01::recv_buffered_%s_%d_%d" % (decname, n1, n2), (), 1200, 10,   # two receives in one formula: > 10 GB (native selftest only)
            body="crate::p01::recv_buffered::<crate::p01::%s, %d, %d>" % (dec, n1, n2), unwind=18,
            inputs="two frames F1 NUL F2 NUL already buffered (F1 = %d, F2 = %d arbitrary non-NUL bytes) behind one consumed byte; two receives through read_message; %s" % (n1, n2, what),
            bound="read_message twice on a pre-loaded buffer, small build", role="recv_buffered")
    for (n1, n2, cut, q) in ((1, 1, 0, True), (2, 2, 0, False), (2, 2, 3, True), (2, 1, 1, False), (3, 2, 4, False), (3, 2, 5, False), (4, 2, 0, False), (4, 1, 6, False)):
        if dec == "Null" and n1 < 4:
            continue
        add("C01", "p01::recv_frames_%s_%d_%d_c%d" % (decname, n1, n2, cut), (), 1500, 10,   # three receives: > 10 GB (native selftest only)
            body="crate::p01::recv_frames::<crate::p01::%s, %d, %d, %d>" % (dec, n1, n2, cut), unwind=12,
            inputs="stream F1 NUL F2 NUL, F1 = %d and F2 = %d arbitrary non-NUL bytes, %s, then end of stream; three receives; %s" % (n1, n2, "one read" if cut == 0 else "cut into two reads after %d bytes" % cut, what),
            bound="end to end through read_message (transport read, frame boundary, decode) on 2 frames, small build", role="recv_frames")
for (rp, n, q) in ((1, 1, False), (2, 2, True), (3, 1, False), (3, 4, True), (5, 2, False), (6, 2, False), (4, 4, False), (7, 1, False)):
    add("C07", "p01::recv_resume_skip_r%d_n%d" % (rp, n), Q if q else T, 1500, 12, est_gb=7,
        body="crate::p01::recv_resume::<crate::p01::Skip, %d, %d>" % (rp, n), unwind=26,
        inputs="state left by an abandoned receive: %d arbitrary bytes buffered (may contain complete frames; last one not NUL), msg_pos=0; the transport then delivers %d arbitrary bytes ending in NUL; decoder that consumes nothing" % (rp, n),
        bound="one read_message call resuming after a dropped receive, one transport read, small build", role="recv_resume")
add("C01", "p01::read_init", Q, 300, 4, inputs="none (initial state of the induction)", bound="Connection::new", unwind=4)

# Inbound limit, inductively: the one-step family of C01 also asserts "buffer never exceeds the limit", "overflow exactly when
# the limit is reached" and "grows by one step when exactly full below the limit"; the instances at and next to the limit are
# registered for C17 under their own names. (The multi-read form from the fresh state, limit_in_ch*, runs out of memory
# at 10 GB: one instance stays in the thorough tier.)
C17_IN_QUICK = {(32, 0), (32, 24), (32, 30), (32, 31), (24, 16), (24, 23), (8, 7)}
for L, RP in read_states():
    if L < 24 and (L, RP) != (8, 7):
        continue
    add("C17", "p01::limit_in_step_l%d_r%02d" % (L, RP), Q if (L, RP) in C17_IN_QUICK else T, 900, 8,
        body="crate::p01::read_step::<%d, %d, 1, false>" % (L, RP), unwind=42,
        inputs="read buffer len=%d, read_pos=%d, buffered bytes symbolic; one symbolic transport step (kind, chunk length 1..=8, bytes)" % (L, RP),
        bound="one read_from_socket call, 1 transport read, small build (STEP=8, MAX=32): limit assertions of the step", role="limit_in_step")
add("C17", "p17::limit_in_ch8", T, 1200, 12, body="crate::p17::limit_in::<8>", unwind=50,
    inputs="frame size (terminator included) symbolic in 1..=48 or never terminated; delivered in chunks of 8 bytes from the initial state",
    bound="one read_from_socket call from the fresh state, small build (STEP=8, MAX=32)", role="limit_in")
add("C17", "p17::limit_constants", Q, 300, 4, build="prod", body="crate::p17::limit_constants", unwind=2,
    inputs="none: relations between the production constants", bound="production build (BUFFER_SIZE=256, MAX=100 MiB)")
for (L, P) in ((32, 13), (32, 14), (32, 29), (32, 31), (24, 24), (8, 0)):
    add("C17", "p02::limit_out_send_l%d_p%02d" % (L, P), (), 900, 8,
        body="crate::p02::send_at::<%d, %d>" % (L, P), unwind=74,
        inputs="write buffer len=%d, pos=%d; symbolic choice send_call/send_reply/send_error with symbolic flags (documents 2..42 bytes)" % (L, P),
        bound="one send from the concrete state; refusal iff pos+len+1 > MAX and then zero transport writes", role="limit_out")
for (L, P) in ((32, 12), (32, 13), (32, 29), (32, 32), (24, 24)):
    add("C17", "p02::limit_out_enqueue_l%d_p%02d" % (L, P), Q if (L, P) in ((32, 12), (32, 13)) else T, 900, 8,
        body="crate::p02::enqueue_reply_at::<%d, %d>" % (L, P), unwind=74,
        inputs="write buffer len=%d, pos=%d; Reply<()> with symbolic continues (2/18/19 bytes)" % (L, P),
        bound="one enqueue from the concrete state", role="limit_out")

add("X00", "p01::read_probe_nopend", T, 900, 8, body="crate::p01::read_probe::<false>", unwind=10, inputs="probe", bound="probe")
for v in range(4):
    add("X00", "p01::read_probe2_v%d" % v, T, 900, 8, body="crate::p01::read_probe2::<%d>" % v, unwind=10, inputs="probe", bound="probe")
for v in range(3):
    add("X00", "p01::rm_probe_v%d" % v, T, 1500, 12, body="crate::p01::rm_probe::<%d>" % v, unwind=18, inputs="probe", bound="probe")
add("X00", "p01::read_probe_pend", T, 900, 8, body="crate::p01::read_probe::<true>", unwind=10, inputs="probe", bound="probe")

# ---------------------------------------------------------------------------------------- C13
for n in (4, 5, 6):
    add("C13", "p13::idl_iface_name_n%d" % n, Q if n >= 5 else T, 1800, 10, body="crate::p13::idl_iface_name::<%d>" % n, unwind=n + 3,
        inputs="%d arbitrary ASCII bytes" % n, bound="interface_name production on %d bytes vs reference recogniser" % n, role="idl_iface_name")
for n in (4, 6):
    add("C13", "p13::idl_field_name_n%d" % n, Q if n == 4 else T, 1200, 8, body="crate::p13::idl_field_name::<%d>" % n, unwind=n + 3,
        inputs="%d arbitrary ASCII bytes" % n, bound="field_name production on %d bytes vs reference recogniser" % n, role="idl_field_name")
    add("C13", "p13::idl_type_name_n%d" % n, Q if n == 4 else T, 1200, 8, body="crate::p13::idl_type_name::<%d>" % n, unwind=n + 3,
        inputs="%d arbitrary ASCII bytes" % n, bound="type_name production on %d bytes vs reference recogniser" % n, role="idl_type_name")
add("C13", "p13::idl_ws_n5", Q, 1200, 8, body="crate::p13::idl_ws::<5>", unwind=9,
    inputs="5 arbitrary ASCII bytes", bound="whitespace/comment production on 5 bytes vs reference", role="idl_ws")
# The type production on arbitrary bytes is out of reach (recursive alt/backtracking over Vec/Box trees: every first-byte
# class except ')' ran out of memory or time at 3 bytes, 20-40 min each); only the ')'-first instances (the slice-panic
# look-ahead) are kept. Deeper type texts are covered by the mutation family below.
for n in (3, 4, 5):
    add("C13", "p13::idl_type_rparen_n%d" % n, Q if n == 3 else T, 900, 8, body="crate::p13::idl_type::<3, %d>" % n, unwind=n + 6,
        inputs="')' followed by %d arbitrary ASCII bytes" % (n - 1),
        bound="type production on %d bytes starting with ')' (never panics, rejected)" % n, role="idl_type")

# mutation family: corpus text S with one arbitrary ASCII byte at position POS (the corpus is parsed from harness/src/p13.rs)
C13_CORPUS = [
    (0, '?[string]?int'),
    (0, '[]?[string]bool'),
    (0, '(a: int, b)'),
    (0, '(a, b: int)'),
    (0, '(a: (b: ?T), c: [](x, y))'),
    (0, '?(one, two)'),
    (0, '[string](k: string)'),
    (0, '[][]object'),
    (0, '(a:float,b_c:?[]T)'),
    (0, '[string][]?[string]?Foo'),
    (1, 'type T (a: int, b)'),
    (1, 'type T (a, b: int)'),
    (1, 'type Ab (x: ?[]int, y: T2)'),
    (1, 'type E (one, two)'),
    (1, 'type T ()'),
    (2, 'method M(a: int) -> (b: [string]?T)'),
    (2, 'method Ping() -> ()'),
    (2, 'method M(a:) -> ()'),
    (3, 'error NotFound (id: int)'),
    (3, 'error E ()'),
    (0, '?[string]?T'),
    (0, '(a:T,b)'),
    (0, '(a,b:T)'),
    (0, '?(a,b)'),
    (0, '[](a:?T)'),
    (1, 'type T(a:T,b)'),
    (2, 'method M()->()'),
    (3, 'error E(a:T)'),
    (0, '?T'),
    (0, '[]T'),
    (0, '(a)'),
    (0, '(a,b)'),
    (0, '(a:T)'),
]
PRODN = ["type", "typedef", "method", "error"]
C13_MUT_QUICK = {(20, 0), (20, 9), (21, 5), (22, 2), (25, 11), (25, 5), (26, 9), (27, 6)}
for si, (kind, text) in enumerate(C13_CORPUS):
    short = len(text) <= 14
    for pos in range(len(text)):
        # No instance of this family has ever produced a verdict (15-25 min / 8 GB each, also for 2-5 byte texts and with
        # core::str::from_utf8 stubbed: winnow's alt back-tracking builds and drops Vec/Box trees, DESIGN 12.10): tiers=() keeps
        # the bodies in the native selftest, where they cross-check the reference recognisers against the real parser.
        add("C13", "p13::idl_mut_s%02d_p%02d" % (si, pos), (), 900, 8, build="prod",
            body="crate::p13::idl_mut::<%d, %d>" % (si, pos), unwind=16 if short else 42, batch=0 if short else 12,
            inputs="%s production on the text %r with an arbitrary ASCII byte at position %d" % (PRODN[kind], text, pos),
            bound="one corpus text (<= 40 bytes) with one symbolic byte, vs the reference recogniser", role="idl_mut")

# ---------------------------------------------------------------------------------------- C02
SMALL_LENS = (8, 16, 24, 32)
# quick tier: boundary geometry that is cheap to decide (little or no buffer growth in the formula);
# thorough tier: every (len, pos) of the small build for every message family.
C02_QUICK = {
    "enqueue_reply_at": {(8, 8), (16, 13), (24, 5), (24, 24), (32, 12), (32, 13), (32, 29), (32, 32)},
    "enqueue_call_at": {(24, 24), (32, 0), (32, 29)},
    "enqueue_str_at": set(),
    "enqueue_refused_at": {(16, 16), (32, 32)},
    "flush_at": {(8, 0), (8, 8), (32, 32)},
    "send_at": set(),
}
C02_KINDS = [
    ("enqueue_call_at", "Call<Empty> with 3 symbolic flags (8 documents of 2..42 bytes) through enqueue_call"),
    ("enqueue_reply_at", "Reply<()> with continues in {None,Some(true),Some(false)} (2/18/19 bytes) through the private enqueue"),
    ("enqueue_str_at", "Reply<&str> holding one symbolic ASCII character (document 19/20/24 bytes depending on the escape)"),
    ("enqueue_refused_at", "a value with a bool map key, then a Reply<()> with symbolic continues"),
    ("flush_at", "symbolic write failure, symbolic 0..=1 Pending from the transport"),
    ("send_at", "symbolic choice send_call/send_reply/send_error, symbolic flags"),
]
for kind, what in C02_KINDS:
    for L in SMALL_LENS:
        for P in range(0, L + 1):
            quick = (L, P) in C02_QUICK[kind]
            tiers = Q if quick else T
            if kind == "send_at":
                # send_* = `enqueue; flush().await`: a depth-2 coroutine nest, no verdict in 12 min (DESIGN 12.3); both halves
                # are checked separately. Bodies stay in the native selftest.
                tiers = ()
            if kind == "enqueue_str_at" and (L, P) not in ((32, 7), (32, 12), (8, 8), (24, 3)):
                continue   # > 11 min each: four instances in the thorough tier
            add("C02", "p02::%s_l%d_p%02d" % (kind, L, P), tiers, 600 if quick else 1500, 12, est_gb=4,
                body="crate::p02::%s::<%d, %d>" % (kind, L, P), unwind=74,
                inputs="write buffer len=%d, fill position=%d (concrete); %s" % (L, P, what),
                bound="one operation from the concrete state (len=%d,pos=%d) of the small build (STEP=8, MAX=32)" % (L, P),
                role=kind)
SEND_KINDS = ["send_call of Call<Empty> with 3 symbolic flags", "send_reply of Reply<()> with symbolic continues", "send_error of an empty error object"]
# send_* = `enqueue; flush().await` (a 2-deep nest). In the small build (grow-and-retry loop in the formula) symbolic execution does
# not finish in 20 min; the three fresh-connection instances in the 128/128 build also hit their 25 min cap in the last full
# thorough run (Chain::send, which C06 decides, is the same nest without the FILL-pattern buffer): kept, reported INCONCLUSIVE.
for (L, P) in ((128, 0),):   # from a non-empty buffer (pos=20) there was no verdict in 25 min / 10 GB
    for kind in range(3):
        add("C02", "p02::send_%s_l%d_p%03d" % (["call", "reply", "error"][kind], L, P), T, 1500, 12, est_gb=8, build="mid",
            body="crate::p02::send_kind_at::<%d, %d, %d>" % (L, P, kind), unwind=130,
            inputs="write buffer len=%d, fill position=%d (concrete); %s" % (L, P, SEND_KINDS[kind]),
            bound="one send (enqueue + flush, a 2-deep coroutine nest) from the concrete state, 128/128 build", role="send_kind_at")
CONT_LEN = {0: 2, 1: 18, 2: 19}
C02_FIXED_QUICK = {(8, 6, 0), (24, 6, 1), (32, 13, 1), (16, 13, 0)}
for L in SMALL_LENS:
    for cont, dl in CONT_LEN.items():
        for delta in (-1, 0, 1):
            P = L - dl + delta          # the document ends one byte before / exactly at / one byte after the buffer end
            if P < 0 or P > L:
                continue
            add("C02", "p02::enqueue_fixed_l%d_p%02d_c%d" % (L, P, cont), Q if (L, P, cont) in C02_FIXED_QUICK else T, 600, 8, est_gb=2,
                body="crate::p02::enqueue_fixed_at::<%d, %d, %d>" % (L, P, cont), unwind=74,
                inputs="write buffer len=%d, fill position=%d, the %d earlier bytes arbitrary; Reply<()> of %d bytes (fixed by the instance)" % (L, P, P, dl),
                bound="one enqueue whose document ends %s the buffer end, small build" % ("one byte before", "exactly at", "one byte after")[delta + 1], role="enqueue_fixed_at")
add("C02", "p02::write_init", Q, 300, 4, inputs="none (initial state of the induction)", bound="Connection::new", unwind=4)


# ---------------------------------------------------------------------------------------- C03
C03_B = "zlink to_slice vs serde_json::to_writer on the same value, every buffer capacity 0..=%d"
def c03(name, tiers, n, inputs, timeout=1800, mem=16, flavour="std", body=None):
    add("C03", "p03::" + name, tiers, timeout, mem, build="prod", body=body or ("crate::p03::" + name), unwind=n + 2,
        inputs=inputs + "; buffer capacity symbolic", bound=C03_B % n, role=name, flavour=flavour)

c03("ser_char_value", T, 8, "one Unicode scalar (all 1 112 064) serialized as char")
c03("ser_char_str", Q, 8, "one Unicode scalar (all 1 112 064) serialized as a 1-char &str")
c03("ser_char_key", T, 16, "one Unicode scalar as a map key; length hint symbolic")
c03("ser_ascii_1", Q, 8, "1 arbitrary ASCII byte as &str", body="crate::p03::ser_ascii::<1>")
c03("ser_ascii_2", T, 14, "2 arbitrary ASCII bytes as &str (all adjacencies of escaped/plain bytes)", body="crate::p03::ser_ascii::<2>")
c03("ser_ascii_3", T, 20, "3 arbitrary ASCII bytes as &str", body="crate::p03::ser_ascii::<3>", timeout=3000)
for L in (2, 3, 4):
    for first in (False, True):
        c03("ser_nonascii_ascii_%d%s" % (L, "r" if first else ""), Q if (L, first) in ((2, False), (3, True)) else T, 12,
            "every scalar whose UTF-8 encoding has %d bytes %s an arbitrary ASCII byte, as &str" % (L, "preceded by" if first else "directly followed by"),
            body="crate::p03::ser_nonascii_ascii::<%d, %s>" % (L, "true" if first else "false"))
c03("ser_str2", T, 14, "string of 0..=2 arbitrary Unicode scalars", timeout=3000)
for t, n, q in (("u8", 4, Q), ("i8", 4, T), ("u16", 6, T), ("i16", 6, Q), ("u32", 10, T), ("i32", 11, T), ("u64", 20, T), ("i64", 20, T), ("u128", 40, T), ("i128", 40, T)):
    c03("ser_int_" + t, q, n, "every %s value as a JSON number (real itoa on both sides)" % t)
    c03("ser_key_" + t, T if t != "u8" else Q, n + 10, "every %s value as a quoted map key" % t)
c03("ser_float_nonfinite_f32", T, 4, "every f32 bit pattern that is NaN or infinite")
c03("ser_float_nonfinite_f64", Q, 4, "every f64 bit pattern that is NaN or infinite")
c03("ser_float_finite_f32", T, 26, "every finite f32 bit pattern; ryu::Buffer::format_finite stubbed by a harness-chosen text on both sides", flavour="ryu")
c03("ser_float_finite_f64", T, 26, "every finite f64 bit pattern; ryu::Buffer::format_finite stubbed by a harness-chosen text on both sides", flavour="ryu")
c03("ser_shape_scalars", Q, 5, "bool / unit / unit struct / Option<u8> / newtype struct / Option<()> with symbolic leaves")
c03("ser_shape_products", Q, 19, "tuple / tuple struct / struct{a:u8,b:bool} with symbolic leaves")
c03("ser_shape_enum", Q, 17, "unit / newtype / tuple / struct enum variant, symbolic choice and leaves")
C03_EMPTY = ["empty struct", "empty tuple struct", "struct variant without fields", "tuple variant without fields", "struct variant with both Option fields skipped",
             "struct variant with one Option field skipped", "struct with both Option fields skipped", "struct with one Option field skipped"]
for i, (what, n) in enumerate(zip(C03_EMPTY, (12, 12, 19, 19, 20, 28, 12, 22))):
    c03("ser_shape_empty_%d" % i, Q if i in (2, 4, 6) else T, n, "%s followed by a symbolic bool sibling in an enclosing tuple" % what, body="crate::p03::ser_shape_empty::<%d>" % i)
c03("ser_shape_seq", T, 9, "slice of u8 with symbolic length 0..=2")
c03("ser_shape_seq_str", T, 19, "slice of two 1-byte ASCII strings, symbolic length 0..=2")
c03("ser_shape_map", T, 27, "map with 0..=2 entries, u8 keys, bool values, length hint present or not")
c03("ser_shape_bytes", T, 9, "byte array (serialize_bytes) of symbolic length 0..=2")
c03("ser_shape_nested", T, 50, "struct{Option<tuple struct>, enum, slice<bool>} with symbolic choices", timeout=3000)
for i, what in enumerate(["&str (one symbolic ASCII byte)", "unit variant (incl. a renamed variant whose name needs escapes)", "newtype struct around &str"]):
    c03("ser_key_accepted_%d" % i, Q if i == 1 else T, 16, "map key kind %s; length hint symbolic" % what, body="crate::p03::ser_key_accepted_k::<%d>" % i, mem=16)
c03("ser_key_refused", Q, 16, "map key kinds bool, f32, f64, unit, Some, None, bytes, array, struct, newtype variant, unit struct, map")



# ---------------------------------------------------------------------------------------- C04
add("C04", "p04::probe_concrete", T, 3600, 12, build="prod", unwind=260, inputs="none (feasibility probe)", bound="one concrete frame")

# ---------------------------------------------------------------------------------------- C05
from math import factorial
def popcount(x):
    return bin(x).count("1")

# quick tier = the instances measured to finish in seconds on a quiet machine. Instances in which `parameters` (content) precedes
# the tag member make serde buffer the content (symbolic Content trees): 4-15 min or no verdict at all; they are thorough-tier only,
# under a 150 s cap each (reported INCONCLUSIVE when they hit it).
C05_FAST = set(['call_strict_m07_o000', 'call_strict_m07_o002', 'call_strict_m07_o005', 'call_strict_m03_o000', 'call_strict_m03_o001', 'error_decode_m1_o0_c1', 'error_decode_m1_o0_c3', 'error_decode_m1_o0_c5', 'service_error_m0_o0_c0', 'service_error_m0_o0_c1', 'service_error_m0_o0_c2', 'call_decode_m00_o000_c0', 'call_decode_m01_o001_c1', 'call_decode_m16_o001_c0', 'call_strict_m00_o001', 'call_strict_m08_o003', 'call_strict_m15_o000', 'call_strict_m15_o715', 'error_decode_m0_o0_c0', 'error_decode_m1_o0_c0', 'error_decode_m1_o0_c2', 'error_decode_m1_o0_c4', 'error_decode_m2_o0_c0', 'error_decode_m3_o0_c0', 'error_decode_m3_o1_c3', 'service_error_m1_o0_c2', 'service_error_m1_o0_c4', 'service_error_m1_o0_c6', 'service_error_m1_o0_c8', 'service_error_m1_o1_c1', 'service_error_m1_o1_c3', 'service_error_m1_o1_c5', 'service_method_m0_o0_c0', 'service_method_m1_o0_c0', 'service_method_m1_o0_c2', 'service_method_m1_o0_c4', 'service_method_m1_o1_c1', 'service_method_m2_o0_c0', 'service_method_m3_o0_c0', 'service_method_m3_o0_c2', 'service_method_m3_o0_c4'])
C05_B = "one envelope at the serde data-model level (token deserializer with serde_json's dispatch rules, cross-checked natively against serde_json)"
NAMES6 = ["parameters", "oneway", "more", "upgrade", "x"]
CALL_CASES = ["null", "{}", "{v: u32}", "{s: str}"]
# quick: (mask, order, case)
C05_CALL_QUICK = {(31, 0, 2), (31, 719, 2), (31, 153, 0), (31, 407, 3), (0, 0, 0), (1, 1, 1), (3, 4, 2), (16, 1, 0), (30, 23, 0), (15, 60, 2)}
for mask in range(32):
    k = 1 + popcount(mask)
    members = ["method"] + [n for i, n in enumerate(NAMES6) if mask >> i & 1]
    for o in range(factorial(k)):
        for case in (range(4) if mask & 1 else (0,)):
            # every order with the struct-variant shape; every 5th order for the other shapes of `parameters`
            if mask & 1 and case != 2 and o % 5 != case:
                continue
            if not ("call_decode_m%02d_o%03d_c%d" % (mask, o, case) in C05_FAST) and (mask * 131 + o * 7 + case) % 6 != 0:
                continue   # thorough tier: every 6th of the remaining (mask, order, case) triples
            add("C05", "p05::call_decode_m%02d_o%03d_c%d" % (mask, o, case), Q if "call_decode_m%02d_o%03d_c%d" % (mask, o, case) in C05_FAST else T, 150, 6, build="prod",
                body="crate::p05::call_decode_order::<%d, %d, %d>" % (mask, o, case), unwind=50, batch=16,
                inputs="Call<Meth> decoded from an object with members {%s} in permutation #%d of them%s; method name symbolic among 3 declared + 1 undeclared, each present flag a symbolic bool, x symbolic in {number, null, object}, u32 field value symbolic" % (
                    ", ".join(members), o, ", parameters = " + CALL_CASES[case] if mask & 1 else ""),
                bound=C05_B, role="call_decode_order")
NAMES_S = ["oneway", "more", "upgrade", "x"]
for mask in range(16):
    k = 2 + popcount(mask)
    for o in range(factorial(k)):
        if k >= 5 and o % 11 != 0 and o >= 6:
            continue   # 5 and 6 members: the six orders that permute the last three members, then every 11th order (all orders of <= 4 members)
        add("C05", "p05::call_strict_m%02d_o%03d" % (mask, o), Q if "call_strict_m%02d_o%03d" % (mask, o) in C05_FAST else T, 150, 6, build="prod",
            body="crate::p05::call_decode_strict::<%d, %d>" % (mask, o), unwind=50, batch=16,
            inputs="Call<Strict> (method type with deny_unknown_fields) from {method, parameters, %s} in permutation #%d; flag values and the unknown member's value symbolic" % (", ".join(n for i, n in enumerate(NAMES_S) if mask >> i & 1), o),
            bound=C05_B, role="call_decode_strict")
SM_CASES = ["GetInfo", "GetInterfaceDescription"]
SP3 = ["null", "{}", "fields"]
ERR_CASES = ["null", "{}", "{code}", "{wireName}", "{msg}", "{msg, opt}"]
for mask in range(4):
    k = 1 + popcount(mask)
    for o in range(factorial(k)):
        for case in (range(6) if mask & 1 else range(2)):
            add("C05", "p05::service_method_m%d_o%d_c%d" % (mask, o, case), Q if "service_method_m%d_o%d_c%d" % (mask, o, case) in C05_FAST else T, 150, 6, build="prod",
                body="crate::p05::service_method_decode::<%d, %d, %d>" % (mask, o, case), unwind=50, batch=8,
                inputs="Call<varlink_service::Method> for %s from method + {%s} in permutation #%d%s; flag value and interface name byte symbolic" % (
                    SM_CASES[case % 2], ", ".join(n for i, n in enumerate(["parameters", "more"]) if mask >> i & 1), o,
                    ", parameters = " + SP3[case // 2] if mask & 1 else ""),
                bound=C05_B, role="service_method_decode")
        for case in (range(6) if mask & 1 else (0,)):
            add("C05", "p05::error_decode_m%d_o%d_c%d" % (mask, o, case), Q if "error_decode_m%d_o%d_c%d" % (mask, o, case) in C05_FAST else T, 150, 6, build="prod",
                body="crate::p05::error_decode_order::<%d, %d, %d>" % (mask, o, case), unwind=50, batch=8,
                inputs="ReplyError-derived enum (unit, struct, renamed-field, borrowed+Option variants, undeclared name; symbolic) from error + {%s} in permutation #%d%s; field values symbolic" % (
                    ", ".join(n for i, n in enumerate(["parameters", "x"]) if mask >> i & 1), o, ", parameters = " + ERR_CASES[case] if mask & 1 else ""),
                bound=C05_B, role="error_decode_order")
SE = ["PermissionDenied", "ExpectedMore", "MethodNotFound"]
for mask in range(2):
    for o in range(factorial(1 + mask)):
        for case in (range(9) if mask else range(3)):
            add("C05", "p05::service_error_m%d_o%d_c%d" % (mask, o, case), Q if "service_error_m%d_o%d_c%d" % (mask, o, case) in C05_FAST else T, 150, 6, build="prod",
                body="crate::p05::service_error_decode::<%d, %d, %d>" % (mask, o, case), unwind=50, batch=8,
                inputs="varlink_service::Error %s from error%s in permutation #%d%s" % (SE[case % 3], " + parameters" if mask else "", o, ", parameters = " + SP3[case // 3] if mask else ""),
                bound=C05_B, role="service_error_decode")
add("C05", "p05::call_roundtrip", T, 1500, 12, build="prod", unwind=50,
    inputs="Call<Meth> with symbolic variant (unit / struct / borrowed), symbolic u32 field and 8 flag sets: encode to tokens, check shape, decode, compare",
    bound="one call", role="call_roundtrip")
add("C05", "p05::error_encode_roundtrip", T, 1500, 12, build="prod", unwind=50,
    inputs="ReplyError-derived enum value with symbolic variant (2 unit, struct, renamed field, borrowed+Option) and symbolic field values: encode, check shape and wire names, decode, compare",
    bound="one error", role="error_encode_roundtrip")
ERRV = ["unit variant", "second unit variant", "struct variant {code}", "variant with a renamed field", "borrowed str + Option field", "variant whose only field is an Option"]
for (w, opt, q) in ((0, False, False), (2, False, False), (3, False, True), (4, True, False), (4, False, False), (5, True, False), (5, False, True)):
    add("C05", "p05::error_roundtrip_v%d%s" % (w, "_some" if opt else "_none" if w >= 4 else ""), Q if q else T, 900, 8, build="prod",
        body="crate::p05::error_encode_roundtrip_v::<%d, %s>" % (w, "true" if opt else "false"), unwind=50,
        inputs="ReplyError-derived enum value: %s%s, field values symbolic: encode to tokens, check shape and wire names, decode, compare" % (ERRV[w], (", Option field %s" % ("set" if opt else "unset")) if w >= 4 else ""),
        bound="one error value of a fixed shape", role="error_roundtrip_v")
add("C05", "p05::reply_roundtrip", T, 1500, 12, build="prod", unwind=50,
    inputs="Reply<Out> with parameters present/absent and continues in {None, false, true} (symbolic): encode, check shape, decode from either member order, compare",
    bound="one reply", role="reply_roundtrip")

# ---------------------------------------------------------------------------------------- C12
C12_M = ["ping", "add", "say", "opt", "renamed_method", "ren_param", "watch", "notify", "get_2fa_code", "ren_opt"]
# quick tier: the instances that finish in a few minutes below 4 GB (bool/None-only argument encodings); the others (symbolic
# three-digit numbers next to a bool: 11 GB, 7-14 min) are thorough-tier only
C12_QUICK_CHAIN = {"ping", "renamed_method", "get_2fa_code", "opt_none", "ren_param", "watch", "ren_opt_none"}
C12_QUICK_EXT = {"opt_none", "ren_param", "ren_opt_none", "renamed_method"}
C12_ARGS = "arguments symbolic within fixed-width encodings: a: u8 in 100..=255, b: bool, 1 alphanumeric ASCII char as &str; the Option argument is %s"
for i, mname in enumerate(C12_M):
    for xs in ((False, True) if mname in ("opt", "ren_opt") else (False,)):
        suffix = mname + ("_some" if xs else "_none" if mname in ("opt", "ren_opt") else "")
        args = C12_ARGS % ("Some(u8 in 100..=255)" if xs else "None")
        xb = "true" if xs else "false"
        # The plain async method is a 4-deep coroutine nest: its frame is compared natively only (./check --selftest);
        # tiers=() keeps the body in the native registry without ever handing it to the solver.
        # The plain async method (proxy fn -> call_method -> send_call -> flush: a 4-deep nest) has no verdict even for the argument-less
        # `ping` after 25 min of symbolic execution: native selftest only (tiers=()).
        add("C12", "p12::proxy_plain_%s" % suffix, (), 2400, 14, build="mid", body="crate::p12::proxy_plain::<%d, %s>" % (i, xb), unwind=162,
            inputs="generated method `%s` (native selftest only)" % mname, bound="native only", role="proxy_plain")
        if mname != "notify":
            add("C12", "p12::proxy_chain_%s" % suffix, Q if suffix in C12_QUICK_CHAIN else T, 2400, 16, build="mid", est_gb=(4 if suffix in C12_QUICK_CHAIN else 12),
                body="crate::p12::proxy_chain::<%d, %s>" % (i, xb), unwind=162,
                inputs="generated `chain_%s(..)`; %s" % (mname, args),
                bound="one chain of one call enqueued on a fresh connection (build with BUFFER_SIZE = MAX_BUFFER_SIZE = 128: the frame fits, the grow-and-retry loop is bounded), frame <= 80 bytes", role="proxy_chain")
        if mname not in ("notify", "watch"):
            add("C12", "p12::proxy_ext_%s" % suffix, Q if suffix in C12_QUICK_EXT else T, 2400, 16, build="mid", est_gb=(4 if suffix in C12_QUICK_EXT else 12),
                body="crate::p12::proxy_ext::<%d, %s>" % (i, xb), unwind=162,
                inputs="generated `chain_ping().%s(..)`; %s" % (mname, args),
                bound="one chain of two calls enqueued on a fresh connection (128/128 build)", role="proxy_ext")

# ---------------------------------------------------------------------------------------- C06
add("C06", "p06::stream_counts_ready", Q, 1200, 16, est_gb=4, body="crate::p06::stream_counts::<3, false>", unwind=20,
    inputs="owed reply count 0..=3 symbolic; per receive a symbolic outcome in {continuing reply, final reply (continues absent), final reply (continues=false), method error, transport error}; up to 6 receives",
    bound="real ReplyStream::poll_next polled up to 8 times; receive futures always ready")
add("C06", "p06::stream_counts_pending", Q, 1500, 16, est_gb=5, body="crate::p06::stream_counts::<2, true>", unwind=20,
    inputs="owed reply count 0..=2 symbolic; outcomes as above; each receive future is Pending 0 or 1 times (symbolic) before completing",
    bound="real ReplyStream::poll_next polled up to 14 times")

for n in (0, 1):
    add("C06", "p06::stream_end_keeps_frames_n%d" % n, Q, 900, 10, est_gb=3, body="crate::p06::stream_end_keeps_frames::<%d>" % n, unwind=20,
        inputs="stream owed %d final repl%s, polled to its end over a connection that holds a later exchange's frame (arbitrary non-NUL bytes) in a grown buffer" % (n, "y" if n == 1 else "ies"),
        bound="real ReplyStream::poll_next polled %d times, small build" % (n + 1), role="stream_end_keeps_frames")

def flagtxt(bits):
    return "{%s%s}" % ("oneway" if bits & 1 else "", (" " if bits & 1 and bits & 2 else "") + ("more" if bits & 2 else "")) if bits else "{plain}"
C06_CHAIN_QUICK = {(1, 0, True), (2, 1, True), (3, 5, False), (2, 2, False)}
for n in (1, 2, 3):
    for pfx in range(4 ** (n - 1)):
        for send in (False, True):
            add("C06", "p06::chain_counts_n%d_f%02d_%s" % (n, pfx, "send" if send else "enq"), Q if (n, pfx, send) in C06_CHAIN_QUICK else T, 1200, 14, est_gb=(9 if send else 4), build="mid",
                body="crate::p06::chain_counts::<%d, %d, %s>" % (n, pfx, "true" if send else "false"), unwind=162,
                inputs="chain of %d Call<Empty> on a fresh connection; flags of the first %d call(s) fixed to %s, flags (oneway, more) of the last call symbolic%s" % (
                    n, n - 1, " ".join(flagtxt(pfx >> (2 * i) & 3) for i in range(n - 1)) or "-", "; then send() polled once and the stream polled once against a peer that never answers" if send else ""),
                bound="real chain_call/append%s, <= 3 calls, 128/128 build" % ("/send + first poll of the reply stream" if send else ""), role="chain_counts")

# ---------------------------------------------------------------------------------------- C11
C11_SCEN = ["both replies arrive in one read", "each reply arrives in its own read (cursors reset in between)",
            "second reply arrives in two pieces after the cursor reset", "second reply is longer than the free space: the buffer grows while the first item is held",
            "three replies: two in one read, the third in its own read"]
for sc in range(5):
    # no solver verdict: serde_json's dispatch on the first byte of a frame read back from the heap buffer is not constant-folded,
    # its number parser (f64 path) enters the formula: 12 GB / 8 min without a verdict even for one pre-loaded frame (DESIGN 12.6).
    add("C11", "p11::borrow_across_items_s%d" % sc, (), 1500, 12,
        body="crate::p11::borrow_across_items::<%d>" % sc, unwind=26,
        inputs="reply frames `\"<c>\"` NUL with one symbolic letter/digit payload byte each; %s" % C11_SCEN[sc],
        bound="real ReplyStream over real read_message/read_from_socket, 2-3 items, frames of 4-12 bytes, small build (STEP=8); decoder = one borrowed JSON string", role="borrow_across_items")

# ---------------------------------------------------------------------------------------- C18
for n in range(0, 5):
    add("C18", "p18::select_all_contract_n%d" % n, Q, 600, 6, body="crate::p18::select_all_contract::<%d>" % n, unwind=6,
        inputs="n=%d futures; readiness of each symbolic; start index Option<usize> fully symbolic (64 bit)" % n,
        bound="one poll of the real SelectAll over n=%d futures" % n)
for n in range(2, 5):
    add("C18", "p18::select_all_fair_step_n%d" % n, Q, 600, 6, body="crate::p18::select_all_fair_step::<%d>" % n, unwind=6,
        inputs="n=%d; readiness in round 1 and round 2 symbolic and independent; first start index symbolic; second start = winner+1" % n,
        bound="two consecutive selections over an unchanged set of %d futures" % n)
for n in range(1, 5):
    add("C18", "p18::select_all_bounded_wait_n%d" % n, Q if n <= 3 else T, 900, 6, body="crate::p18::select_all_bounded_wait::<%d>" % n, unwind=6,
        inputs="n=%d; one future j (symbolic) stays ready; all others' readiness re-drawn every round; start_{r+1}=winner_r+1" % n,
        bound="n=%d rounds over an unchanged set" % n)


def for_property(prop, tier):
    out = []
    for h in H:
        if h["property"] != prop or not h["tiers"]:
            continue
        if tier == "quick" and "quick" not in h["tiers"]:
            continue
        out.append(h)
    return out


def properties():
    seen = []
    for h in H:
        if h["property"] not in seen:
            seen.append(h["property"])
    return seen


def generate_rust():
    """The text of harness/src/gen.rs: one `harnesses!` block per (module, fmt flavour)."""
    groups = {}
    for h in H:
        groups.setdefault((h["gmod"], h["flavour"]), []).append(h)
    out = ["// @generated by `./check --gen` from vlib/catalog.py — do not edit.", ""]
    for (gmod, flavour), hs in sorted(groups.items()):
        out.append("pub mod %s {" % gmod)
        out.append("    crate::harnesses! {%s" % ("" if flavour == "std" else " " + flavour))
        for h in hs:
            out.append("        %s: %d => %s," % (h["body_name"], h["unwind"], h["body"]))
        out.append("    }")
        out.append("}")
        out.append("")
    out.append("#[cfg(not(kani))]")
    out.append("pub fn registry() -> Vec<(&'static str, fn(&mut crate::Nd))> {")
    out.append("    let mut v = Vec::new();")
    for (gmod, flavour) in sorted(groups):
        out.append("    v.extend_from_slice(%s::LIST);" % gmod)
    out.append("    v")
    out.append("}")
    return "\n".join(out) + "\n"
