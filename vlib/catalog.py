"""Harness catalog: which Kani proofs decide which property, in which tier, under which caps.

name      : "<module>::<proof>"  (Kani name is <module>::k::<proof>; native registry name is <proof>)
tiers     : subset of {"quick","thorough"}; thorough runs quick's harnesses too
inputs    : what is symbolic in this instance (written to the evidence samples)
bound     : the stated bound
finding   : if set, this harness is pinned to one known defect (known_findings.json key); it is
            *expected* to be refuted on a tree that still has the defect
"""

H = []


def add(prop, name, tiers, timeout_s=900, mem_gb=8, build="small", inputs="", bound="", role=None,
        body=None, unwind=8, fmt=False):
    """body: Rust path of the harness body `fn(&mut Nd)` (default crate::<mod>::<proof>);
    fmt=True keeps core::fmt real (no fmt stubs)."""
    mod, proof = name.split("::")
    H.append({
        "property": prop, "name": name, "kani_name": "gen::%s::k::%s" % (mod + ("_fmt" if fmt else ""), proof),
        "body_name": proof, "mod": mod, "fmt": fmt,
        "body": body or "crate::%s::%s" % (mod, proof), "unwind": unwind,
        "tiers": set(tiers), "timeout_s": timeout_s, "mem_gb": mem_gb, "build": build,
        "inputs": inputs, "bound": bound, "role": role or proof,
    })


Q = ("quick", "thorough")
T = ("thorough",)

# ---------------------------------------------------------------------------------------- C01 / C07 / C17 (inbound)
def read_states():
    for L in (8, 16, 24, 32):
        for RP in range(0, L):
            yield L, RP

C01_QUICK = {(8, 0), (8, 6), (8, 7), (16, 0), (16, 14), (16, 15), (24, 23), (32, 0), (32, 24), (32, 30), (32, 31)}
for L, RP in read_states():
    quick = (L, RP) in C01_QUICK
    add("C01", "p01::read_step_l%d_r%02d" % (L, RP), Q if quick else T, 900, 8,
        body="crate::p01::read_step::<%d, %d, 2, false>" % (L, RP), unwind=42,
        inputs="read buffer len=%d, read_pos=%d (concrete), the %d buffered bytes symbolic (last one not NUL); transport script of 2 steps, each symbolic in kind {data, pending, eof, error}, chunk length 1..=8 and chunk bytes" % (L, RP, RP),
        bound="one read_from_socket call, <= 2 transport reads (+ EOF), small build (STEP=8, MAX=32)", role="read_step")
    add("C07", "p01::read_step_cancel_l%d_r%02d" % (L, RP), Q if quick else T, 900, 8,
        body="crate::p01::read_step::<%d, %d, 2, true>" % (L, RP), unwind=42,
        inputs="as C01 read_step (len=%d, read_pos=%d), plus: at every Pending a symbolic bool decides whether the receive future is dropped and a new one created" % (L, RP),
        bound="<= 2 transport steps, <= 3 futures, small build", role="read_step_cancel")
for L, RP in ((8, 0), (8, 5), (16, 9), (32, 0), (32, 27)):
    add("C01", "p01::read_step3_l%d_r%02d" % (L, RP), T, 1800, 10,
        body="crate::p01::read_step::<%d, %d, 3, false>" % (L, RP), unwind=42,
        inputs="as read_step with a script of 3 symbolic steps (len=%d, read_pos=%d)" % (L, RP),
        bound="one read_from_socket call, <= 3 transport reads", role="read_step")
    add("C07", "p01::cancel_relational_l%d_r%02d" % (L, RP), T, 1800, 10,
        body="crate::p01::cancel_relational::<%d, %d, 2>" % (L, RP), unwind=42,
        inputs="two real connections in state (len=%d, read_pos=%d) fed the same symbolic 2-step script; A's future dropped at a symbolic subset of Pendings, B's never" % (L, RP),
        bound="<= 2 transport steps", role="cancel_relational")
for (L, RP, MP) in ((8, 5, 3), (16, 12, 4), (32, 31, 16)):
    add("C01", "p01::read_step_buffered_l%d_r%02d_m%02d" % (L, RP, MP), Q if L == 8 else T, 600, 6,
        body="crate::p01::read_step_buffered::<%d, %d, %d>" % (L, RP, MP), unwind=42,
        inputs="state with a frame already buffered (len=%d, read_pos=%d, msg_pos=%d), buffer bytes symbolic" % (L, RP, MP),
        bound="one call", role="read_step_buffered")
add("C01", "p01::read_init", Q, 300, 4, inputs="none (initial state of the induction)", bound="Connection::new", unwind=4)

for ch in (3, 7, 8):
    add("C17", "p17::limit_in_ch%d" % ch, Q if ch != 3 else T, 1800, 10,
        body="crate::p17::limit_in::<%d>" % ch, unwind=50,
        inputs="frame size (terminator included) symbolic in 1..=48 or never terminated; delivered in chunks of %d bytes from the initial state" % ch,
        bound="one read_from_socket call from the fresh state, small build (STEP=8, MAX=32)", role="limit_in")
add("C17", "p17::limit_constants", Q, 300, 4, build="prod", body="crate::p17::limit_constants", unwind=2,
    inputs="none: relations between the production constants", bound="production build (BUFFER_SIZE=256, MAX=100 MiB)")
for (L, P) in ((32, 13), (32, 14), (32, 29), (32, 31), (24, 24), (8, 0)):
    add("C17", "p02::limit_out_send_l%d_p%02d" % (L, P), Q if (L, P) in ((32, 13), (32, 31)) else T, 900, 8,
        body="crate::p02::send_at::<%d, %d>" % (L, P), unwind=74,
        inputs="write buffer len=%d, pos=%d; symbolic choice send_call/send_reply/send_error with symbolic flags (documents 2..42 bytes)" % (L, P),
        bound="one send from the concrete state; refusal iff pos+len+1 > MAX and then zero transport writes", role="limit_out")
for (L, P) in ((32, 12), (32, 13), (32, 29), (32, 32), (24, 24)):
    add("C17", "p02::limit_out_enqueue_l%d_p%02d" % (L, P), Q if (L, P) in ((32, 12), (32, 13)) else T, 900, 8,
        body="crate::p02::enqueue_reply_at::<%d, %d>" % (L, P), unwind=74,
        inputs="write buffer len=%d, pos=%d; Reply<()> with symbolic continues (2/18/19 bytes)" % (L, P),
        bound="one enqueue from the concrete state", role="limit_out")

# ---------------------------------------------------------------------------------------- C13
for n in (4, 5, 6):
    add("C13", "p13::idl_iface_name_n%d" % n, Q if n == 5 else T, 1800, 10, body="crate::p13::idl_iface_name::<%d>" % n, unwind=n + 3,
        inputs="%d arbitrary ASCII bytes" % n, bound="interface_name production on %d bytes vs reference recogniser" % n, role="idl_iface_name")
for n in (4, 6):
    add("C13", "p13::idl_field_name_n%d" % n, Q if n == 4 else T, 1200, 8, body="crate::p13::idl_field_name::<%d>" % n, unwind=n + 3,
        inputs="%d arbitrary ASCII bytes" % n, bound="field_name production on %d bytes vs reference recogniser" % n, role="idl_field_name")
    add("C13", "p13::idl_type_name_n%d" % n, Q if n == 4 else T, 1200, 8, body="crate::p13::idl_type_name::<%d>" % n, unwind=n + 3,
        inputs="%d arbitrary ASCII bytes" % n, bound="type_name production on %d bytes vs reference recogniser" % n, role="idl_type_name")
add("C13", "p13::idl_ws_n5", Q, 1200, 8, body="crate::p13::idl_ws::<5>", unwind=9,
    inputs="5 arbitrary ASCII bytes", bound="whitespace/comment production on 5 bytes vs reference", role="idl_ws")
FIRSTS = ["question", "bracket", "lparen", "rparen", "upper", "prim", "other"]
for f, fname in enumerate(FIRSTS):
    for n in (3, 4, 5):
        add("C13", "p13::idl_type_%s_n%d" % (fname, n), Q if n == 3 else T, 2400, 12, body="crate::p13::idl_type::<%d, %d>" % (f, n), unwind=n + 6,
            inputs="first byte of class '%s', then %d arbitrary ASCII bytes" % (fname, n - 1),
            bound="type production on %d bytes vs reference recogniser (inline nesting <= 2)" % n, role="idl_type")

# ---------------------------------------------------------------------------------------- C02
SMALL_LENS = (8, 16, 24, 32)
# quick tier: boundary geometry that is cheap to decide (little or no buffer growth in the formula);
# thorough tier: every (len, pos) of the small build for every message family.
C02_QUICK = {
    "enqueue_reply_at": {(8, 8), (16, 13), (24, 5), (24, 24), (32, 12), (32, 13), (32, 29), (32, 32)},
    "enqueue_call_at": {(24, 24), (32, 0), (32, 29)},
    "enqueue_str_at": {(32, 7), (32, 12)},
    "enqueue_refused_at": {(16, 16), (32, 32)},
    "flush_at": {(8, 0), (8, 8), (32, 32)},
    "send_at": {(8, 0), (32, 13), (32, 31)},
}
C02_KINDS = [
    ("enqueue_call_at", "Call<Empty> with 3 symbolic flags (8 documents of 2..42 bytes) through enqueue_call"),
    ("enqueue_reply_at", "Reply<()> with continues in {None,Some(true),Some(false)} (2/18/19 bytes) through the private enqueue"),
    ("enqueue_str_at", "Reply<&str> holding one symbolic ASCII character (document 19/20/24 bytes depending on the escape)"),
    ("enqueue_refused_at", "a value with a bool map key, then a Reply<()> with symbolic continues"),
    ("flush_at", "symbolic write failure, symbolic 0..=1 Pending from the transport"),
    ("send_at", "symbolic choice send_call/send_reply/send_error, symbolic flags"),
]
for kind, what in C02_KINDS:
    for L in SMALL_LENS:
        for P in range(0, L + 1):
            quick = (L, P) in C02_QUICK[kind]
            add("C02", "p02::%s_l%d_p%02d" % (kind, L, P), Q if quick else T, 600 if quick else 1500, 8,
                body="crate::p02::%s::<%d, %d>" % (kind, L, P), unwind=74,
                inputs="write buffer len=%d, fill position=%d (concrete); %s" % (L, P, what),
                bound="one operation from the concrete state (len=%d,pos=%d) of the small build (STEP=8, MAX=32)" % (L, P),
                role=kind)
add("C02", "p02::write_init", Q, 300, 4, inputs="none (initial state of the induction)", bound="Connection::new", unwind=4)

# ---------------------------------------------------------------------------------------- C06
add("C06", "p06::stream_counts_ready", Q, 900, 10, body="crate::p06::stream_counts::<3, false>", unwind=16,
    inputs="owed reply count 0..=3 symbolic; per receive a symbolic outcome in {continuing reply, final reply (continues absent), final reply (continues=false), method error, transport error}; up to 6 receives",
    bound="real ReplyStream::poll_next polled up to 8 times; receive futures always ready")
add("C06", "p06::stream_counts_pending", Q, 1200, 10, body="crate::p06::stream_counts::<2, true>", unwind=16,
    inputs="owed reply count 0..=2 symbolic; outcomes as above; each receive future is Pending 0 or 1 times (symbolic) before completing",
    bound="real ReplyStream::poll_next polled up to 14 times")

# ---------------------------------------------------------------------------------------- C18
for n in range(0, 5):
    add("C18", "p18::select_all_contract_n%d" % n, Q, 600, 6, body="crate::p18::select_all_contract::<%d>" % n, unwind=6,
        inputs="n=%d futures; readiness of each symbolic; start index Option<usize> fully symbolic (64 bit)" % n,
        bound="one poll of the real SelectAll over n=%d futures" % n)
for n in range(2, 5):
    add("C18", "p18::select_all_fair_step_n%d" % n, Q, 600, 6, body="crate::p18::select_all_fair_step::<%d>" % n, unwind=6,
        inputs="n=%d; readiness in round 1 and round 2 symbolic and independent; first start index symbolic; second start = winner+1" % n,
        bound="two consecutive selections over an unchanged set of %d futures" % n)
for n in range(1, 5):
    add("C18", "p18::select_all_bounded_wait_n%d" % n, Q if n <= 3 else T, 900, 6, body="crate::p18::select_all_bounded_wait::<%d>" % n, unwind=6,
        inputs="n=%d; one future j (symbolic) stays ready; all others' readiness re-drawn every round; start_{r+1}=winner_r+1" % n,
        bound="n=%d rounds over an unchanged set" % n)


def for_property(prop, tier):
    out = []
    for h in H:
        if h["property"] != prop:
            continue
        if tier == "quick" and "quick" not in h["tiers"]:
            continue
        out.append(h)
    return out


def properties():
    seen = []
    for h in H:
        if h["property"] not in seen:
            seen.append(h["property"])
    return seen


def generate_rust():
    """The text of harness/src/gen.rs: one `harnesses!` block per (module, fmt flavour)."""
    groups = {}
    for h in H:
        groups.setdefault((h["mod"], h["fmt"]), []).append(h)
    out = ["// @generated by `./check --gen` from vlib/catalog.py — do not edit.", ""]
    for (mod, fmt), hs in sorted(groups.items()):
        out.append("pub mod %s {" % (mod + ("_fmt" if fmt else "")))
        out.append("    crate::harnesses! {%s" % (" nofmt" if fmt else ""))
        for h in hs:
            out.append("        %s: %d => %s," % (h["body_name"], h["unwind"], h["body"]))
        out.append("    }")
        out.append("}")
        out.append("")
    out.append("#[cfg(not(kani))]")
    out.append("pub fn registry() -> Vec<(&'static str, fn(&mut crate::Nd))> {")
    out.append("    let mut v = Vec::new();")
    for (mod, fmt) in sorted(groups):
        out.append("    v.extend_from_slice(%s::LIST);" % (mod + ("_fmt" if fmt else "")))
    out.append("    v")
    out.append("}")
    return "\n".join(out) + "\n"
