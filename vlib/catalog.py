"""Harness catalog: which Kani proofs decide which property, in which tier, under which caps.

name      : "<module>::<proof>"  (Kani name is <module>::k::<proof>; native registry name is <proof>)
tiers     : subset of {"quick","thorough"}; thorough runs quick's harnesses too
inputs    : what is symbolic in this instance (written to the evidence samples)
bound     : the stated bound
finding   : if set, this harness is pinned to one known defect (known_findings.json key); it is
            *expected* to be refuted on a tree that still has the defect
"""

H = []


def add(prop, name, tiers, timeout_s=900, mem_gb=8, build="small", inputs="", bound="", role=None):
    mod, proof = name.split("::")
    H.append({
        "property": prop, "name": name, "kani_name": "%s::k::%s" % (mod, proof), "body_name": proof,
        "tiers": set(tiers), "timeout_s": timeout_s, "mem_gb": mem_gb, "build": build,
        "inputs": inputs, "bound": bound, "role": role or proof,
    })


Q = ("quick", "thorough")
T = ("thorough",)

# ---------------------------------------------------------------------------------------- C18
for n in range(0, 5):
    add("C18", "p18::select_all_contract_n%d" % n, Q, 600, 6,
        inputs="n=%d futures; readiness of each symbolic; start index Option<usize> fully symbolic (64 bit)" % n,
        bound="one poll of the real SelectAll over n=%d futures" % n)
for n in range(2, 5):
    add("C18", "p18::select_all_fair_step_n%d" % n, Q, 600, 6,
        inputs="n=%d; readiness in round 1 and round 2 symbolic and independent; first start index symbolic; second start = winner+1" % n,
        bound="two consecutive selections over an unchanged set of %d futures" % n)
for n in range(1, 5):
    add("C18", "p18::select_all_bounded_wait_n%d" % n, Q if n <= 3 else T, 900, 6,
        inputs="n=%d; one future j (symbolic) stays ready; all others' readiness re-drawn every round; start_{r+1}=winner_r+1" % n,
        bound="n=%d rounds over an unchanged set" % n)


def for_property(prop, tier):
    out = []
    for h in H:
        if h["property"] != prop:
            continue
        if tier == "quick" and "quick" not in h["tiers"]:
            continue
        out.append(h)
    return out


def properties():
    seen = []
    for h in H:
        if h["property"] not in seen:
            seen.append(h["property"])
    return seen
