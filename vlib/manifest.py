"""Generate /verif/MANIFEST.json from the claim table below (python3 vlib/manifest.py)."""
import json, os, subprocess, sys

VERIF = os.path.dirname(os.path.dirname(os.path.abspath(__file__)))

TECH = "bounded symbolic execution of the real Rust code (Kani 0.68 / CBMC 6.11, SAT: CaDiCaL); counterexamples replayed natively"

CLAIMS = {
    "C18": {
        "text": "Bounded model checking of the real SelectAll::poll (helper level): for n<=4 futures, every readiness "
                "vector and every 64-bit start index the solver shows the winner is the first ready future in cyclic "
                "order, nobody behind it is polled, two consecutive rounds with start=winner+1 never serve the same "
                "future twice while another is ready, and a future that stays ready is served within n rounds.",
        "design_ref": "DESIGN.md section 3 (C18)",
        "note": "Covers SelectAll only. That Server::run passes last_winner+1, keeps it across iterations, and how "
                "swap_remove shifts indices (second sentence of the property) is inside the run() coroutine and is NOT "
                "encoded (DESIGN.md 9.1). Trusted: Kani's Vec/Pin models; hook verif_select_all is a forwarder.",
    },
}

NOT_APPLICABLE = {
    "C08": "Server::run is one coroutine over select_biased!, per-iteration Vec of receive futures (unsafe re-borrow) and serde_json decoding per call; one end-to-end receive_call alone exceeded 20 min of symbolic execution, a multi-connection server loop is out of reach of bounded symbolic execution (DESIGN.md 9.1).",
    "C09": "same server-loop coroutine as C08; fault placement x interleavings over Server::run cannot be encoded within reach (DESIGN.md 9.1).",
    "C10": "same server-loop coroutine as C08 plus service streams (DESIGN.md 9.1).",
    "C15": "composes zlink-codegen string building, rustc and two proc-macros; the quantifier is over IDL programs; neither rustc nor macro expansion can be executed symbolically (DESIGN.md 9.2).",
    "C16": "<T as Type>::TYPE is a compile-time constant per Rust declaration: there is no runtime input to make symbolic and the quantifier is over programs (DESIGN.md 9.3).",
    "C19": "kernel socket buffers, tokio's reactor and smol's Async are FFI/syscall code that Kani does not model; partial writes only arise there (DESIGN.md 9.4).",
    "C20": "behaviour is that of tokio::sync::broadcast / async-broadcast / async-channel internals (intrusive lists, Arc/Mutex/atomics); Kani does not handle concurrent code and the heap shapes are far beyond what finished in the probes (DESIGN.md 9.5).",
}

PENDING = "claimed by DESIGN.md but its check is not built yet in this revision of /verif"


def main():
    props = [json.loads(l)["id"] for l in open(os.path.join(VERIF, "properties.jsonl"))]
    hooks = subprocess.run(["git", "-C", "/repo", "log", "--format=%H %s", "--grep=^verif hook"],
                           capture_output=True, text=True).stdout.strip().splitlines()
    checks = []
    for pid in props:
        if pid not in CLAIMS:
            continue
        c = CLAIMS[pid]
        checks.append({
            "property_id": pid,
            "quick_cmd": "./check %s --tier quick" % pid,
            "thorough_cmd": "./check %s --tier thorough" % pid,
            "evidence_file": "/verif/evidence/%s.json" % pid,
            "replay_cmd_template": "./check %s --replay {path}" % pid,
            "engine": "kani-cbmc",
            "level_claimed": {"category": "model_checking", "text": c["text"], "design_ref": c["design_ref"]},
            "level_note": c["note"],
            "technique": c.get("technique", TECH),
        })
    na = []
    for pid in props:
        if pid in CLAIMS:
            continue
        na.append({"property_id": pid, "reason": NOT_APPLICABLE.get(pid, PENDING)})
    m = {
        "version": 1,
        "setup_cmd": "./check --setup",
        "hooks": {
            "guard": "--cfg zlink_verif (plus --cfg zlink_verif_small for the small-constant buffer build)",
            "enable": "RUSTFLAGS='--cfg zlink_verif --cfg zlink_verif_small' cargo kani -Z stubbing (set by ./check; harness crate /verif/harness has path dependencies on /repo)",
            "baseline_off_cmd": "cd /repo && cargo nextest run --workspace --no-fail-fast --offline",
            "source_commits": [h.split()[0] for h in hooks][::-1],
            "add_only": True,
        },
        "engines": [{
            "name": "kani-cbmc", "path": "/verif/check",
            "serves_properties": [c["property_id"] for c in checks],
            "kind_free_text": "Kani 0.68.0 proof harnesses (/verif/harness) over the real zlink-core code, decided by CBMC 6.11.0 + CaDiCaL with unwinding assertions; driver /verif/check runs instances in parallel, parses verdicts, replays counterexamples natively (dev+release) before reporting",
        }],
        "checks": checks,
        "not_applicable": na,
        "notes": "Solver-based checking only. Exit 0 = held on everything explored (INCONCLUSIVE lines name instances that hit a cap and are excluded from the discharged count); exit 1 = VIOLATION with a natively reproduced counterexample; exit 2 = check broken here (harness build failure or non-reproducing counterexample). Known findings: /verif/known_findings.json.",
    }
    with open(os.path.join(VERIF, "MANIFEST.json"), "w") as f:
        json.dump(m, f, indent=1)
    print("MANIFEST.json written: %d checks, %d not_applicable" % (len(checks), len(na)))


if __name__ == "__main__":
    main()
