"""Generate /verif/MANIFEST.json from the claim table below (python3 vlib/manifest.py)."""
import json, os, subprocess, sys

VERIF = os.path.dirname(os.path.dirname(os.path.abspath(__file__)))

TECH = "bounded symbolic execution of the real Rust code (Kani 0.68 / CBMC 6.11, SAT: CaDiCaL); counterexamples replayed natively"

CLAIMS = {
    "C01": {
        "text": 'Bounded model checking of the real receive path as inductive steps. Transport half: the real ReadConnection::read_from_socket from every concrete (buffer length, read cursor) state of the small-constant build, with symbolic buffered bytes and one symbolic transport step (kind, chunk length 1..=8, chunk bytes): bytes are appended in order, none lost or duplicated, the call returns exactly at a chunk ending in NUL, plants the sentinel, grows by one step when exactly full, and leaves a state of the same family on error/pending. Frame half: the real read_message on a buffered frame of n arbitrary non-NUL bytes at a concrete message cursor, last frame or followed by another one (recv_step), and from a fresh connection through one transport burst (recv_fresh): the receive yields the verdict of exactly that frame (a frame that fails to decode consumes exactly itself), moves the cursor exactly past it or resets both cursors after the last frame, leaves every buffered byte intact and serves buffered frames without touching the transport.',
        "design_ref": 'DESIGN.md section 3 (C01), 12 and 13',
        "note": "Small-constant build (BUFFER_SIZE=8, MAX_BUFFER_SIZE=32). The frame half uses a decoder that takes nothing from the document (verdict = the slice handed to serde_json::from_slice is all JSON whitespace; any other byte is a decode error), because serde_json's value parsers do not fit the solver (DESIGN 12.6): what is decided is zlink's framing (which slice is decoded, where the cursors go), not JSON decoding of requested shapes. Histories of receives are covered by induction over steps (prose); receive_call/receive_reply are thin wrappers over read_message and are not themselves in the formula. Stubs: fmt, tracing level, serde_json error positions, memchr loop crate. Scripted read halves honour the ReadHalf contract.",
    },
    "C02": {
        "text": "Bounded model checking of the real WriteConnection::enqueue / enqueue_call / flush from concrete (buffer length, fill position) states of the "
                "small-constant build with symbolic messages: the buffer receives exactly the expected document bytes plus one NUL at the fill position, earlier bytes untouched, "
                "position advanced by len+1; a refused serialization contributes nothing and the connection stays usable; flush writes exactly the filled prefix in one write "
                "(none when empty) and resets the position only after the write. Each instance is one inductive step; the family covers every (len,pos) in the thorough tier, and fixed-size messages behind arbitrary earlier bytes cover a document ending one byte before, exactly at and one byte after the buffer end for every buffer length.",
        "design_ref": "DESIGN.md section 3 (C02)",
        "note": "Small-constant build; messages: Call<Empty> with 8 flag sets, Reply<()> with 3 continues values, Reply<&str> of one symbolic ASCII char, an unserializable value. "
                "Histories are covered by induction over steps (prose), each step is a solver verdict. send_call/send_reply/send_error are literally `enqueue; flush().await`; as a 2-deep coroutine nest they produced no verdict (three fresh-connection instances in the 128/128 build stay in the thorough tier and are reported INCONCLUSIVE when they hit their cap): that a send is its enqueue followed by its flush is read from the code, both halves are decided separately. In the last full thorough run 337 of 344 instances verified; the 7 without a verdict are those 3 and the 4 `enqueue_str_at` instances (symbolic escape length, 25 min cap). Stubs as listed in the evidence.",
    },
    "C03": {
        "text": "Differential bounded model checking: zlink's to_slice and the real serde_json::to_writer run on the same symbolic value inside one formula, for every buffer "
                "capacity 0..=N: equal length and bytes on success, BufferTooSmall exactly when the capacity is too small, never a byte written past the offered space, no raw "
                "control byte. Values: every Unicode scalar as char/str/key, all ASCII pairs, full ranges of the integer types through the real itoa, non-finite floats, the serde "
                "shapes (option, unit, newtype, tuple, struct, four enum variant kinds, empty and all-skipped containers followed by a sibling, sequences, maps, bytes, nesting), accepted and refused map-key kinds.",
        "design_ref": "DESIGN.md section 3 (C03)",
        "note": "Strings <= 2-3 scalars, collections <= 2 elements, depth <= 2. Finite floats: ryu::Buffer::format_finite is stubbed on both sides by a harness-chosen text "
                "(digit generation is third-party); only the finite/non-finite classification is the real code there. Production buffer constants are irrelevant (to_slice hook).",
    },
    "C05": {
        "text": "Bounded model checking of zlink's serde impls at the serde data-model level: Call<M>'s hand-written Serialize/Deserialize, Reply<T>, the output of the real "
                "ReplyError derive and varlink_service::{Method, Error} are driven through a token-level Serializer/Deserializer written from serde_json's dispatch rules. One "
                "instance per (set of present members, member order) - all 1631 for Call with six possible members in the thorough tier - with all values symbolic: flags are "
                "recognised in any position, absent = false, hidden from the method type, other members passed through; errors/replies decode from any order; encode shapes "
                "and round trips hold; `parameters` absent/null/{} for field-less messages.",
        "design_ref": "DESIGN.md section 3 (C05)",
        "note": "JSON text is not in the formula: the token deserializer models which visit_* serde_json calls for each value kind; that model is cross-checked natively against the real "
                "serde_json on every token tree the harness bodies build in smoke mode (./check --selftest). Unit-output proxies (`{\"parameters\":{}}` for `()`) are not covered "
                "(needs receive_reply on text). Instances in which `parameters` precedes the tag member make serde buffer the content as symbolic Content trees and take 4-15 min or give no verdict: the quick tier is the measured set of instances that finish in seconds (tag first, or Call<Strict> with the flags in two far-apart orders), the thorough tier adds a sample of the others under a 150 s cap each and reports those that hit it as INCONCLUSIVE - so order independence is decided for the flag members and for tag-first orders, and only sampled for content-first orders. The three encode/decode round-trip harnesses are thorough-tier (10-25 min). Known findings: `parameters: {}` rejected for field-less derived errors, service errors and GetInfo.",
    },
    "C06": {
        "text": "Bounded model checking of the real ReplyStream::poll_next with a symbolic number of owed replies (0..=3) and a symbolic script of receive outcomes (continuing reply, final reply, method error, transport error; receive futures optionally pending): a receive is started only while a reply is owed, items come out in order, the owed count drops exactly on final replies and method errors, the stream ends exactly when nothing is owed or after a transport error and stays ended, and the stream itself - also when it is polled to its end - never touches frames of later exchanges already buffered in the connection. Chain bookkeeping on the real chain_call/append/send for chains of 1..=3 calls (flags of the last call symbolic, of the earlier ones fixed per instance): exactly the calls' documents are enqueued in order, one reply is expected per call that is not oneway, send() completes with one write carrying exactly those bytes.",
        "design_ref": 'DESIGN.md section 3 (C06), 12 and 13',
        "note": "The stream is driven through the public doc-hidden ReplyStream::new with a harness receive function, so Chain::send's own closure (receive_reply on JSON text) is not in the formula: that Chain::send hands its reply count and receive function to the stream unchanged is read from the code, not solved, and a change there is missed (seeds C06-B, C06-C; DESIGN 11). Chain harnesses use the 128/128 build.",
    },
    "C07": {
        "text": 'Bounded model checking of cancel safety of a receive. At its only suspension point: the real read_from_socket from every concrete state of the small build with a symbolic transport step, where at every Pending a symbolic choice drops the future and a new receive is started: final buffer content, cursors and result equal the reference model of an uninterrupted receive (a relational variant runs two real connections on the same script, one cancelled, one not). At the level of read_message: from the state an abandoned receive leaves behind (arbitrary buffered bytes, possibly whole frames, last byte not NUL) a new receive takes in the rest of the burst, yields the first complete frame and loses nothing (recv_resume).',
        "design_ref": 'DESIGN.md section 3 (C07), 12 and 13',
        "note": "One transport step per call (inductive step); small-constant build; read_message's decode step after the read is synchronous and has no suspension point; recv_resume uses the decoder that consumes nothing (see C01). The server loop that relies on this guarantee is not encoded.",
    },
    "C12": {
        "text": 'Bounded model checking of frames produced by the real #[proxy] expansion of a fixed 10-method corpus trait (no-arg, scalars, &str, Option, renamed method, renamed parameter, renamed Option parameter, more, oneway, digit in name) for symbolic argument values: the chain_<m>() and chain-extension forms enqueue byte for byte the call the declaration denotes (method path, wire names, omitted None, flags).',
        "design_ref": 'DESIGN.md section 3 (C12), 12 and 13',
        "note": 'Frame-equality part only, on the chain forms (synchronous enqueue). The plain async method (a 4-deep coroutine nest: no verdict after 25 min of symbolic execution even without arguments) is compared with the same expected frame natively only (selftest), which is not a solver verdict: a change that affects only the plain form is missed (seeds C12-B, C12-C). The quantifier over traits is replaced by a fixed corpus, so a macro change that only affects shapes outside the corpus is missed. Known findings: chain forms ignore parameter renames, send None as null, drop `more`.',
    },
    "C13": {
        "text": "Bounded model checking of the real IDL parser per grammar production against reference recognisers written from the Varlink grammar: the interface_name, field_name, type_name and whitespace/comment productions on 4-6 arbitrary ASCII bytes (consumed length = longest grammatical match, accepted iff grammatical, never panics) and the type production on inputs starting with ')' (the historical slice panic).",
        "design_ref": "DESIGN.md section 3 (C13), 12.3, 12.10 and 13.1",
        "note": "Name and whitespace productions only. The type / typedef / method / error productions are NOT decided by the solver: on arbitrary bytes they exceed memory at 3 bytes, and the mutation family (corpus text with one arbitrary byte) never produced a verdict (DESIGN 12.10); its bodies run in the native selftest only, which is not a solver verdict. Changes confined to those productions are missed (seeds C13-A, C13-B, C13-D). Member order across kinds and layout independence of whole interfaces are not claimed.",
    },
    "C17": {
        "text": "Bounded model checking on the small-constant build (STEP=8, MAX=32). Inbound, as inductive steps: the real read_from_socket from every concrete (buffer length, read cursor) state at and next to the limit with one symbolic transport step (kind, chunk length, bytes): the buffer never exceeds the limit, BufferOverflow is returned exactly when the buffer is full at the limit, it grows by exactly one step when full below the limit, and every shorter chunk is accepted. Outbound: enqueue from the concrete states around the limit refuses exactly the messages that do not fit under it, leaves position and earlier bytes untouched and contributes nothing to a later write. The relations between the production constants that the argument uses (MAX a multiple of STEP, MAX >= 2*STEP, STEP >= 2) are checked on the production build.",
        "design_ref": "DESIGN.md section 3 (C17) and 13.4",
        "note": "Size = bytes on the wire including the terminator. The multi-read form from the fresh state (a frame of symbolic size 1..=MAX+2*STEP in fixed chunks, limit_in_ch8) needs more than 12 GB and is reported INCONCLUSIVE in the thorough tier; whole frames are covered by induction over the step family (prose). Production values (256 / 100 MiB) themselves are out of reach; the small build shares the code and the checked constant relations - a change that only misbehaves when MAX/STEP is not a power of two is still caught because growth is compared with the one-step model (seed C17-C).",
    },
    "C18": {
        "text": "Bounded model checking of the real SelectAll::poll (helper level): for n<=4 futures, every readiness "
                "vector and every 64-bit start index the solver shows the winner is the first ready future in cyclic "
                "order, nobody behind it is polled, two consecutive rounds with start=winner+1 never serve the same "
                "future twice while another is ready, and a future that stays ready is served within n rounds.",
        "design_ref": "DESIGN.md section 3 (C18)",
        "note": "Covers SelectAll only. That Server::run passes last_winner+1, keeps it across iterations, and how "
                "swap_remove shifts indices (second sentence of the property) is inside the run() coroutine and is NOT "
                "encoded (DESIGN.md 9.1). Trusted: Kani's Vec/Pin models; hook verif_select_all is a forwarder.",
    },
}

NOT_APPLICABLE = {
    "C04": "the three-way untagged decode is a type local to receive_reply, reachable only through receive_reply -> read_message -> read_from_socket on JSON text: a 3-deep coroutine nest plus serde's Content buffering; the single-frame concrete probe did not finish in 55 min / 8 GB and nested coroutines make CBMC's encoding explode (DESIGN.md 12). Not encodable within reach.",
    "C11": "needs two receive_reply calls on JSON text through the reply stream (nested coroutines, see C04) with pointer-validity reasoning over a reallocating buffer; not encodable within reach (DESIGN.md 12).",
    "C14": "rendering goes through core::fmt (dyn Write, padding machinery) and parsing back needs whole productions on >= 20 symbolic bytes; the type production alone exceeds memory at 3 arbitrary bytes (DESIGN.md 12). Not encodable within reach.",
    "C08": "Server::run is one coroutine over select_biased!, per-iteration Vec of receive futures (unsafe re-borrow) and serde_json decoding per call; one end-to-end receive_call alone exceeded 20 min of symbolic execution, a multi-connection server loop is out of reach of bounded symbolic execution (DESIGN.md 9.1).",
    "C09": "same server-loop coroutine as C08; fault placement x interleavings over Server::run cannot be encoded within reach (DESIGN.md 9.1).",
    "C10": "same server-loop coroutine as C08 plus service streams (DESIGN.md 9.1).",
    "C15": "composes zlink-codegen string building, rustc and two proc-macros; the quantifier is over IDL programs; neither rustc nor macro expansion can be executed symbolically (DESIGN.md 9.2).",
    "C16": "<T as Type>::TYPE is a compile-time constant per Rust declaration: there is no runtime input to make symbolic and the quantifier is over programs (DESIGN.md 9.3).",
    "C19": "kernel socket buffers, tokio's reactor and smol's Async are FFI/syscall code that Kani does not model; partial writes only arise there (DESIGN.md 9.4).",
    "C20": "behaviour is that of tokio::sync::broadcast / async-broadcast / async-channel internals (intrusive lists, Arc/Mutex/atomics); Kani does not handle concurrent code and the heap shapes are far beyond what finished in the probes (DESIGN.md 9.5).",
}

PENDING = "claimed by DESIGN.md but its check is not built yet in this revision of /verif"


def main():
    props = [json.loads(l)["id"] for l in open(os.path.join(VERIF, "properties.jsonl"))]
    hooks = subprocess.run(["git", "-C", "/repo", "log", "--format=%H %s", "--grep=^verif hook"],
                           capture_output=True, text=True).stdout.strip().splitlines()
    checks = []
    for pid in props:
        if pid not in CLAIMS:
            continue
        c = CLAIMS[pid]
        checks.append({
            "property_id": pid,
            "quick_cmd": "./check %s --tier quick" % pid,
            "thorough_cmd": "./check %s --tier thorough" % pid,
            "evidence_file": "/verif/evidence/%s.json" % pid,
            "replay_cmd_template": "./check %s --replay {path}" % pid,
            "engine": "kani-cbmc",
            "level_claimed": {"category": "model_checking", "text": c["text"], "design_ref": c["design_ref"]},
            "level_note": c["note"],
            "technique": c.get("technique", TECH),
        })
    na = []
    for pid in props:
        if pid in CLAIMS:
            continue
        na.append({"property_id": pid, "reason": NOT_APPLICABLE.get(pid, PENDING)})
    m = {
        "version": 1,
        "setup_cmd": "./check --setup",
        "hooks": {
            "guard": "--cfg zlink_verif (plus --cfg zlink_verif_small for the small-constant buffer build)",
            "enable": "RUSTFLAGS='--cfg zlink_verif --cfg zlink_verif_small' cargo kani -Z stubbing (set by ./check; harness crate /verif/harness has path dependencies on /repo)",
            "baseline_off_cmd": "cd /repo && cargo nextest run --workspace --no-fail-fast --offline",
            "source_commits": [h.split()[0] for h in hooks][::-1],
            "add_only": True,
        },
        "engines": [{
            "name": "kani-cbmc", "path": "/verif/check",
            "serves_properties": [c["property_id"] for c in checks],
            "kind_free_text": "Kani 0.68.0 proof harnesses (/verif/harness) over the real zlink-core code, decided by CBMC 6.11.0 + CaDiCaL with unwinding assertions; driver /verif/check runs instances in parallel, parses verdicts, replays counterexamples natively (dev+release) before reporting",
        }],
        "checks": checks,
        "not_applicable": na,
        "notes": "Solver-based checking only. Exit 0 = held on everything explored (INCONCLUSIVE lines name instances that hit a cap and are excluded from the discharged count); exit 1 = VIOLATION with a natively reproduced counterexample; exit 2 = check broken here (harness build failure or non-reproducing counterexample). Known findings: /verif/known_findings.json.",
    }
    with open(os.path.join(VERIF, "MANIFEST.json"), "w") as f:
        json.dump(m, f, indent=1)
    print("MANIFEST.json written: %d checks, %d not_applicable" % (len(checks), len(na)))


if __name__ == "__main__":
    main()
